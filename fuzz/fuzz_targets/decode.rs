#![no_main]
//! G-fuzz: libFuzzer mutates octets; the target runs the same oracles as the C01 / C02 / C05 / C08
//! workers on each input and aborts with a VP-VIOLATION line when one of them fires.
use libfuzzer_sys::fuzz_target;

fuzz_target!(|data: &[u8]| {
    vp_harness::fuzzjudge::decode(data);
});
