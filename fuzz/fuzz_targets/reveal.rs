#![no_main]
//! G-fuzz for C13: (attribute type, secret length, secret, random vector, hidden value) from octets.
use libfuzzer_sys::fuzz_target;

fuzz_target!(|data: &[u8]| {
    vp_harness::fuzzjudge::reveal(data);
});
