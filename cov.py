#!/usr/bin/env python3
"""Reach audit (DESIGN 3.6): which lines and branch sides of /repo/src a property's workload executed.

A monitor decides nothing about code its workload never drives. This module runs a property's
native workload once more in a build instrumented with LLVM source-based coverage
(-Cinstrument-coverage -Zcoverage-options=branch, nightly toolchain, its own target directory) and
reports, per source file of the code under test, the lines and branch sides that were executed and
the ones that were not. It is an observation about the workload, never a verdict on the code:
nothing here can make a check exit 1.

  cov.py <ID> [<ID> ...]      audit these properties, print a summary, write coverage/<ID>.json
  cov.py --all                all twenty, plus coverage/SUMMARY.md with the union
"""
import json
import os
import re
import shutil
import subprocess
import sys
import tempfile
import time

import vp

LLVM_BIN = None


def _llvm_bin():
    global LLVM_BIN
    if LLVM_BIN is None:
        rc, out = vp.sh(["rustc", "+nightly", "--print", "sysroot"])
        root = out.strip().splitlines()[-1] if rc == 0 and out.strip() else ""
        cand = os.path.join(root, "lib", "rustlib", "x86_64-unknown-linux-gnu", "bin")
        LLVM_BIN = cand if os.path.exists(os.path.join(cand, "llvm-cov")) else ""
    return LLVM_BIN


def build_cov():
    """Build the worker with coverage instrumentation; returns the executable or None."""
    if not _llvm_bin():
        return None
    tdir = os.path.join(vp.HARNESS, "target-cov")
    env = dict(vp.ENV_BASE, RUSTFLAGS="-Cinstrument-coverage -Zcoverage-options=branch", CARGO_TARGET_DIR=tdir,
               LLVM_PROFILE_FILE=os.path.join(tdir, "build-%p-%m.profraw"))
    rc, out = vp.sh(["cargo", "+nightly", "build", "--bin", "vp-worker"], cwd=vp.HARNESS, env=env, timeout=1800)
    if rc != 0:
        return None
    exe = os.path.join(tdir, "debug", "vp-worker")
    return exe if os.path.exists(exe) else None


def run_workload(exe, prop, seed, rundir, scale, nshards=16, timeout=900):
    procs = []
    for i in range(nshards):
        env = dict(vp.ENV_BASE, LLVM_PROFILE_FILE=os.path.join(rundir, "%s-%d-%%p.profraw" % (prop, i)))
        args = [exe, "--prop", prop, "--tier", "quick", "--seed", str(seed), "--shard", "%d/%d" % (i, nshards), "--build", "cov",
                "--out", os.path.join(rundir, "cov-%s-%d.json" % (prop, i)), "--journal", os.path.join(rundir, "cov-%s-%d.journal" % (prop, i)),
                "--scale", str(scale), "--time-cap", "120"]
        procs.append(subprocess.Popen(args, env=env, cwd=vp.HARNESS, stdout=subprocess.DEVNULL, stderr=subprocess.DEVNULL))
    t0 = time.time()
    ok = 0
    for p in procs:
        try:
            p.wait(timeout=max(1, timeout - (time.time() - t0)))
            # a worker that found violations exits 0 too (they are in its report); anything else is just less coverage
            ok += 1 if p.returncode == 0 else 0
        except subprocess.TimeoutExpired:
            p.kill()
            p.wait()
    return ok


def export(exe, rundir, prop):
    raws = [os.path.join(rundir, f) for f in os.listdir(rundir) if f.endswith(".profraw") and f.startswith(prop + "-")]
    if not raws:
        return None
    prof = os.path.join(rundir, "%s.profdata" % prop)
    rc, out = vp.sh([os.path.join(_llvm_bin(), "llvm-profdata"), "merge", "-sparse", "-o", prof] + raws, timeout=600)
    if rc != 0:
        return None
    p = subprocess.run([os.path.join(_llvm_bin(), "llvm-cov"), "export", "-format=lcov", "-instr-profile=" + prof, exe,
                        "-ignore-filename-regex=^/(root|rustc|verif)/"], stdout=subprocess.PIPE, stderr=subprocess.PIPE, timeout=600)
    if p.returncode != 0:
        return None
    return p.stdout.decode("utf-8", "replace")


def parse_lcov(text):
    """-> {file: {"lines": {line: count}, "branches": {(line, block, branch): taken}}}"""
    files, cur = {}, None
    for ln in text.splitlines():
        if ln.startswith("SF:"):
            # only the code under test (the export also lists the harness and inlined std code)
            cur = files.setdefault(ln[3:], {"lines": {}, "branches": {}}) if ln[3:].startswith(vp.REPO + "/src/") else None
        elif cur is None:
            continue
        elif ln.startswith("DA:"):
            a, b = ln[3:].split(",")[:2]
            cur["lines"][int(a)] = cur["lines"].get(int(a), 0) + int(b)
        elif ln.startswith("BRDA:"):
            a, blk, br, taken = ln[5:].split(",")
            k = (int(a), blk, br)
            cur["branches"][k] = cur["branches"].get(k, 0) + (0 if taken == "-" else int(taken))
    return files


def in_test_code(path, line_no, cache={}):
    """True for lines inside tests directories or after a #[cfg(test)] marker (unit-test modules)."""
    if "/tests/" in path or path.endswith("/tests.rs"):
        return True
    if path not in cache:
        try:
            src = open(path, encoding="utf-8", errors="replace").read().splitlines()
        except OSError:
            src = []
        first = next((i + 1 for i, l in enumerate(src) if "#[cfg(test)]" in l and i + 1 < len(src) and "mod " in src[i + 1] and "{" in src[i + 1]), None)
        cache[path] = (src, first)
    src, first = cache[path]
    return first is not None and line_no >= first


def summarise(files):
    out = {}
    for path, d in sorted(files.items()):
        rel = os.path.relpath(path, vp.REPO)
        if in_test_code(path, 0):
            continue
        try:
            src = open(path, encoding="utf-8", errors="replace").read().splitlines()
        except OSError:
            src = []
        lines = {n: c for n, c in d["lines"].items() if not in_test_code(path, n)}
        br = {k: c for k, c in d["branches"].items() if not in_test_code(path, k[0])}
        unc = sorted(n for n, c in lines.items() if c == 0)
        unb = sorted({k[0] for k, c in br.items() if c == 0})
        out[rel] = {
            "lines_instrumented": len(lines), "lines_executed": len(lines) - len(unc),
            "branch_sides": len(br), "branch_sides_taken": sum(1 for c in br.values() if c > 0),
            "lines_not_executed": [{"line": n, "text": (src[n - 1].strip()[:100] if 0 < n <= len(src) else "")} for n in unc[:60]],
            "lines_with_a_branch_side_not_taken": [{"line": n, "text": (src[n - 1].strip()[:100] if 0 < n <= len(src) else "")} for n in unb[:40]],
        }
    return out


def audit(prop, seed=1, scale=0.25, keep=None):
    """Run the audit for one property; returns the evidence fragment (or a dict with 'unavailable')."""
    t0 = time.time()
    exe = build_cov()
    if not exe:
        return {"unavailable": "coverage build failed or llvm-cov not present on the nightly toolchain"}
    rundir = keep or tempfile.mkdtemp(prefix="cov-%s-" % prop, dir=os.path.join(vp.ROOT, "run"))
    try:
        ok = run_workload(exe, prop, seed, rundir, scale)
        text = export(exe, rundir, prop)
        if text is None:
            return {"unavailable": "no profile data (workers finished: %d)" % ok}
        files = parse_lcov(text)
        summ = summarise(files)
        tl = sum(f["lines_instrumented"] for f in summ.values())
        te = sum(f["lines_executed"] for f in summ.values())
        tb = sum(f["branch_sides"] for f in summ.values())
        tt = sum(f["branch_sides_taken"] for f in summ.values())
        return {
            "what": "LLVM source-based coverage of /repo/src (unit-test modules excluded) under this property's native quick workload at scale %s, 16 shards, seed %d; an observation about the workload, not a verdict" % (scale, seed),
            "workers_finished": ok, "wall_s": round(time.time() - t0, 1),
            "lines_instrumented": tl, "lines_executed": te, "branch_sides": tb, "branch_sides_taken": tt,
            "files": summ, "_raw": files,
        }
    finally:
        if not keep:
            shutil.rmtree(rundir, ignore_errors=True)


def main():
    args = sys.argv[1:]
    if not args:
        print(__doc__)
        return 2
    os.makedirs(os.path.join(vp.ROOT, "run"), exist_ok=True)
    vp.DICT = vp.install_dict() or ([], [], [])
    props = ["C%02d" % i for i in range(1, 21)] if args[0] == "--all" else args
    os.makedirs(os.path.join(vp.ROOT, "coverage"), exist_ok=True)
    union = {}
    rows = []
    for p in props:
        r = audit(p)
        if "unavailable" in r:
            print("%s: unavailable: %s" % (p, r["unavailable"]))
            continue
        raw = r.pop("_raw")
        for path, d in raw.items():
            u = union.setdefault(path, {"lines": {}, "branches": {}})
            for n, c in d["lines"].items():
                u["lines"][n] = u["lines"].get(n, 0) + c
            for k, c in d["branches"].items():
                u["branches"][k] = u["branches"].get(k, 0) + c
        json.dump(r, open(os.path.join(vp.ROOT, "coverage", "%s.json" % p), "w"), indent=1)
        rows.append((p, r))
        print("%s: lines %d/%d, branch sides %d/%d, %.0fs" % (p, r["lines_executed"], r["lines_instrumented"], r["branch_sides_taken"], r["branch_sides"], r["wall_s"]))
    if args[0] == "--all":
        summ = summarise(union)
        md = ["# Reach audit: source coverage of /repo/src under the quick workloads", "",
              "Generated by `python3 cov.py --all` (LLVM source-based coverage, unit-test modules excluded, scale 0.25, seed 1).",
              "An observation about the workloads, not a verdict.", "",
              "| property | lines executed | branch sides taken |", "|---|---|---|"]
        for p, r in rows:
            md.append("| %s | %d / %d | %d / %d |" % (p, r["lines_executed"], r["lines_instrumented"], r["branch_sides_taken"], r["branch_sides"]))
        tl = sum(f["lines_instrumented"] for f in summ.values())
        te = sum(f["lines_executed"] for f in summ.values())
        tb = sum(f["branch_sides"] for f in summ.values())
        tt = sum(f["branch_sides_taken"] for f in summ.values())
        md += ["| **union** | **%d / %d** | **%d / %d** |" % (te, tl, tt, tb), "", "## Not executed by any workload", ""]
        for rel, f in summ.items():
            for e in f["lines_not_executed"]:
                md.append("* `%s:%d` `%s`" % (rel, e["line"], e["text"].replace("`", "'")))
        md += ["", "## Lines with a branch side no workload took", ""]
        for rel, f in summ.items():
            for e in f["lines_with_a_branch_side_not_taken"]:
                md.append("* `%s:%d` `%s`" % (rel, e["line"], e["text"].replace("`", "'")))
        open(os.path.join(vp.ROOT, "coverage", "SUMMARY.md"), "w").write("\n".join(md) + "\n")
        print("union: lines %d/%d, branch sides %d/%d" % (te, tl, tt, tb))
    return 0


if __name__ == "__main__":
    sys.exit(main())
