#!/usr/bin/env python3
"""Supervisor for the rl2tp runtime-monitoring checks (see DESIGN.md section 3).

  vp.py check <ID> <quick|thorough>     run one property's check, write evidence/<ID>.json
  vp.py replay <path>                   re-execute one recorded case
  vp.py setup                           build everything the quick checks need, self-check the reference

Exit status: 0 held on everything explored, 1 violation (a line
"VIOLATION property=<id> replay=<path>" is printed for each class), 2 inconclusive.
Python standard library only.
"""
import hashlib
import json
import math
import os
import re
import shutil
import signal
import subprocess
import sys
import tempfile
import threading
import time

ROOT = os.path.dirname(os.path.abspath(__file__))
HARNESS = os.path.join(ROOT, "harness")
REPO = "/repo"
NSHARDS = int(os.environ.get("VERIF_SHARDS", "16"))
ENV_BASE = dict(os.environ, CARGO_NET_OFFLINE="true", CARGO_TERM_COLOR="never")
DICT = ([], [], [])

# ---------------------------------------------------------------------------------------------
# G-dict: literals harvested from the source under test (DESIGN 3.5). A branch guarded by a constant
# the generators have no reason to produce is not driven; the constants the code itself compares
# against are the cheapest source of such values, so every integer / short string literal of
# /repo/src (test modules excluded) is offered to the generators. Nothing here is an oracle.

_INT_RE = re.compile(r"(?<![A-Za-z0-9_.])(0x[0-9a-fA-F_]+|0b[01_]+|0o[0-7_]+|[0-9][0-9_]*)(?:_?[ui](?:8|16|32|64|128|size))?(?![A-Za-z0-9_]|\.[0-9])")
_STR_RE = re.compile(r'b?"((?:[^"\\]|\\.)*)"')
_CHR_RE = re.compile(r"b'((?:[^'\\]|\\.)+)'")


def _lit_int(s):
    s = s.replace("_", "")
    try:
        return int(s, 0) if s[:2].lower() in ("0x", "0b", "0o") else int(s)
    except ValueError:
        return None


def _unescape(s):
    out = bytearray()
    i = 0
    while i < len(s):
        c = s[i]
        if c == "\\" and i + 1 < len(s):
            n = s[i + 1]
            if n == "x" and i + 3 < len(s):
                try:
                    out.append(int(s[i + 2:i + 4], 16))
                    i += 4
                    continue
                except ValueError:
                    pass
            m = {"n": 10, "r": 13, "t": 9, "0": 0, "\\": 92, '"': 34, "'": 39}.get(n)
            if m is not None:
                out.append(m)
                i += 2
                continue
        out += c.encode("utf-8")
        i += 1
    return bytes(out)


def _strip_cfg_test(t):
    """Remove every item that follows a #[cfg(test)] attribute (a `mod x;` line or a braced block)."""
    while True:
        i = t.find("#[cfg(test)]")
        if i < 0:
            return t
        j = i + len("#[cfg(test)]")
        semi, brace = t.find(";", j), t.find("{", j)
        if brace < 0 or (0 <= semi < brace):
            end = (semi + 1) if semi >= 0 else len(t)
        else:
            depth, k = 0, brace
            while k < len(t):
                if t[k] == "{":
                    depth += 1
                elif t[k] == "}":
                    depth -= 1
                    if depth == 0:
                        break
                k += 1
            end = k + 1
        t = t[:i] + t[end:]


def harvest_dict(src=None):
    """(all integer literals, the 'rare' ones, short string literals) of the code under test."""
    src = src or os.path.join(REPO, "src")
    ints, strs = {}, {}
    for root, dirs, files in os.walk(src):
        dirs[:] = sorted(d for d in dirs if d != "tests")
        for f in sorted(files):
            if not f.endswith(".rs") or f == "tests.rs":
                continue
            try:
                t = open(os.path.join(root, f), encoding="utf-8", errors="replace").read()
            except OSError:
                continue
            t = re.sub(r"//[^\n]*", "", t)
            t = re.sub(r"/\*.*?\*/", "", t, flags=re.S)
            t = _strip_cfg_test(t)
            for m in _STR_RE.finditer(t):
                b = _unescape(m.group(1))
                if 1 <= len(b) <= 24 and b"{" not in b:
                    strs[b] = strs.get(b, 0) + 1
            for m in _CHR_RE.finditer(t):
                b = _unescape(m.group(1))
                if len(b) == 1:
                    ints[b[0]] = ints.get(b[0], 0) + 1
            t2 = _STR_RE.sub('""', t)
            for m in _INT_RE.finditer(t2):
                v = _lit_int(m.group(1))
                if v is not None and 0 <= v < 1 << 64:
                    ints[v] = ints.get(v, 0) + 1
            # a << b written with literals
            for m in re.finditer(r"\b(0x[0-9a-fA-F_]+|[0-9][0-9_]*)(?:_?[ui](?:8|16|32|64|size))?\s*<<\s*([0-9]{1,2})\b", t2):
                a, b = _lit_int(m.group(1)), int(m.group(2))
                if a is not None and b < 64 and 0 <= (a << b) < 1 << 64:
                    ints[a << b] = ints.get(a << b, 0) + 1
            # byte arrays written as [0x12, 0x34, ...] read as big-endian numbers of 2, 4 or 8 octets
            for m in re.finditer(r"\[\s*((?:(?:0x[0-9a-fA-F]{1,2}|[0-9]{1,3})(?:_?u8)?\s*,\s*){1,7}(?:0x[0-9a-fA-F]{1,2}|[0-9]{1,3})(?:_?u8)?)\s*,?\s*\]", t2):
                parts = [_lit_int(re.sub(r"_?u8$", "", p.strip())) for p in m.group(1).split(",") if p.strip()]
                if all(p is not None and p < 256 for p in parts) and len(parts) in (2, 4, 8):
                    v = int.from_bytes(bytes(parts), "big")
                    ints[v] = ints.get(v, 0) + 1
                    strs[bytes(parts)] = strs.get(bytes(parts), 0) + 1
    allv = sorted(ints)
    # "rare": everything above the enumerations that the grids already cover exhaustively
    rare = [v for v in allv if v > 41]
    if len(rare) > 400:
        rare = sorted(rare, key=lambda v: (ints[v], v))[:400]
    sl = sorted(strs, key=lambda b: (strs[b], b))[:100]
    return allv[:600], sorted(rare), sl


def install_dict():
    if "VP_DICT" in ENV_BASE and os.environ.get("VP_DICT_KEEP"):
        return
    try:
        allv, rare, sl = harvest_dict()
    except Exception:
        allv, rare, sl = [], [], []
    ENV_BASE["VP_DICT"] = ",".join(str(v) for v in rare)
    ENV_BASE["VP_DICT_STR"] = ",".join(b.hex() for b in sl)
    return allv, rare, sl


# ---------------------------------------------------------------------------------------------
# builds


class Inconclusive(Exception):
    pass


def sh(cmd, env=None, cwd=None, timeout=None, capture=True):
    p = subprocess.run(cmd, env=env or ENV_BASE, cwd=cwd, timeout=timeout,
                       stdout=subprocess.PIPE if capture else None,
                       stderr=subprocess.STDOUT if capture else None)
    return p.returncode, (p.stdout.decode("utf-8", "replace") if capture else "")


_build_lock = threading.Lock()
_built = {}


def build(tag):
    """Build the worker for a build tag and return the command prefix that runs it."""
    with _build_lock:
        if tag in _built:
            return _built[tag]
        t0 = time.time()
        if tag == "dbg":
            rc, out = sh(["cargo", "build", "--bin", "vp-worker"], cwd=HARNESS)
            cmd = [os.path.join(HARNESS, "target/debug/vp-worker")]
        elif tag == "rel":
            rc, out = sh(["cargo", "build", "--release", "--bin", "vp-worker"], cwd=HARNESS)
            cmd = [os.path.join(HARNESS, "target/release/vp-worker")]
        elif tag == "odd":
            # release build whose allocator serves every byte buffer at an odd address
            env = dict(ENV_BASE, CARGO_TARGET_DIR=os.path.join(HARNESS, "target-odd"))
            rc, out = sh(["cargo", "build", "--release", "--features", "odd_alloc", "--bin", "vp-worker"], cwd=HARNESS, env=env)
            cmd = [os.path.join(HARNESS, "target-odd/release/vp-worker")]
        elif tag == "miri":
            env = dict(ENV_BASE, MIRIFLAGS="-Zmiri-disable-isolation")
            # build once (also builds the sysroot on first use); run with --selfcheck-less no-op
            rc, out = sh(["cargo", "+nightly", "miri", "run", "--bin", "vp-worker", "--", "--meta", "C01"],
                         cwd=HARNESS, env=env, timeout=1800)
            cmd = ["cargo", "+nightly", "miri", "run", "-q", "--bin", "vp-worker", "--"]
        elif tag == "asan":
            env = dict(ENV_BASE, RUSTFLAGS="-Zsanitizer=address -Cforce-frame-pointers=yes",
                       CARGO_TARGET_DIR=os.path.join(HARNESS, "target-asan"))
            rc, out = sh(["cargo", "+nightly", "build", "--release", "--target", "x86_64-unknown-linux-gnu",
                          "--bin", "vp-worker"], cwd=HARNESS, env=env, timeout=1800)
            cmd = [os.path.join(HARNESS, "target-asan/x86_64-unknown-linux-gnu/release/vp-worker")]
        elif tag == "tsan":
            env = dict(ENV_BASE, RUSTFLAGS="-Zsanitizer=thread",
                       CARGO_TARGET_DIR=os.path.join(HARNESS, "target-tsan"))
            rc, out = sh(["cargo", "+nightly", "build", "--release", "-Zbuild-std", "--target",
                          "x86_64-unknown-linux-gnu", "--bin", "vp-worker"], cwd=HARNESS, env=env, timeout=1800)
            cmd = [os.path.join(HARNESS, "target-tsan/x86_64-unknown-linux-gnu/release/vp-worker")]
        else:
            raise ValueError(tag)
        if rc != 0:
            raise Inconclusive("build %s failed:\n%s" % (tag, out[-3000:]))
        _built[tag] = (cmd, time.time() - t0)
        return _built[tag]


_watch_cache = {}


def watch_symbols(tag):
    """M6: writable statics (.data/.bss, not .data.rel.ro) and TLS objects whose demangled name
    contains rl2tp::, for the linked worker of a native build. Returns (VP_WATCH, VP_TLS, names)."""
    if tag in _watch_cache:
        return _watch_cache[tag]
    cmd, _ = build(tag)
    exe = cmd[0]
    res = ("", "", [])
    try:
        rc, secs = sh(["readelf", "-SW", exe], timeout=120)
        secname = {}
        for m in re.finditer(r"^\s*\[\s*(\d+)\]\s+(\S+)", secs, re.M):
            secname[int(m.group(1))] = m.group(2)
        rc, syms = sh(["readelf", "-sW", "--demangle", exe], timeout=120)
        if "rl2tp" not in syms:
            rc, syms = sh(["readelf", "-sW", exe], timeout=120)
        items, names = [], []
        for line in syms.splitlines():
            f = line.split(None, 7)
            if len(f) < 8 or not f[0].rstrip(":").isdigit():
                continue
            value, size, typ, ndx, name = f[1], f[2], f[3], f[6], f[7]
            if "rl2tp" not in name or not ndx.isdigit():
                continue
            sec = secname.get(int(ndx), "")
            try:
                size_i = int(size, 0)
            except ValueError:
                continue
            if typ == "TLS":
                items.append("T:%s:%d:%s" % (value, size_i, name.replace(";", ",").replace(":", ".")[:120]))
                names.append("tls " + name[:100])
            elif typ == "OBJECT" and sec in (".data", ".bss"):
                items.append("S:%s:%d:%s" % (value, size_i, name.replace(";", ",").replace(":", ".")[:120]))
                names.append("static " + name[:100])
        rc, ph = sh(["readelf", "-lW", exe], timeout=120)
        tls = ""
        m = re.search(r"^\s*TLS\s+0x[0-9a-f]+\s+0x[0-9a-f]+\s+0x[0-9a-f]+\s+0x[0-9a-f]+\s+(0x[0-9a-f]+)\s+\S+\s+(0x[0-9a-f]+|\d+)", ph, re.M)
        if m:
            tls = "%d:%d" % (int(m.group(1), 16), int(m.group(2), 0))
        res = (";".join(items), tls, names)
    except Exception as e:  # tool missing: the monitor is simply not armed
        res = ("", "", ["<symbol scan failed: %s>" % e])
    _watch_cache[tag] = res
    return res


def build_envprobe():
    """Compile the getenv interposer (C, about 40 lines) next to the worker; None if no C compiler."""
    src = os.path.join(HARNESS, "native", "envprobe.c")
    out = os.path.join(HARNESS, "target", "libenvprobe.so")
    try:
        if os.path.exists(out) and os.path.getmtime(out) >= os.path.getmtime(src):
            return out
        os.makedirs(os.path.dirname(out), exist_ok=True)
        rc, _ = sh(["cc", "-shared", "-fPIC", "-O1", "-o", out, src, "-ldl"], timeout=120)
        return out if rc == 0 else None
    except Exception:
        return None


def worker_env(tag):
    env = dict(ENV_BASE)
    if tag in ("dbg", "rel"):
        w, tls, _ = watch_symbols(tag)
        env["VP_WATCH"] = w
        env["VP_TLS"] = tls
    if tag == "miri":
        env["MIRIFLAGS"] = "-Zmiri-disable-isolation"
    if tag == "asan":
        env["ASAN_OPTIONS"] = "halt_on_error=1:abort_on_error=1:detect_leaks=1:allocator_may_return_null=1"
    if tag == "tsan":
        env["TSAN_OPTIONS"] = "halt_on_error=1:exitcode=66"
    return env


# ---------------------------------------------------------------------------------------------
# running workers


class Shard:
    def __init__(self, i):
        self.i = i
        self.rc = None
        self.out_bytes = 0      # octets seen on the worker's fd 1
        self.err_bytes = 0      # octets seen on the worker's fd 2
        self.out_head = b""
        self.err_tail = b""
        self.report = None
        self.journal = None
        self.timed_out = False
        self.stalled = None
        self.wall = 0.0


def _drain(pipe, shard, which):
    while True:
        chunk = pipe.read(65536)
        if not chunk:
            break
        if which == "out":
            shard.out_bytes += len(chunk)
            if len(shard.out_head) < 400:
                shard.out_head += chunk[:400 - len(shard.out_head)]
        else:
            shard.err_bytes += len(chunk)
            shard.err_tail = (shard.err_tail + chunk)[-4000:]


STALL_S = {"dbg": 240, "rel": 240, "odd": 240, "asan": 480, "tsan": 480, "miri": 900}


def _drain_fd(fd, shard):
    """Read a pseudo-terminal master until the slave side is closed (EIO)."""
    while True:
        try:
            chunk = os.read(fd, 65536)
        except OSError:
            break
        if not chunk:
            break
        shard.err_bytes += len(chunk)
        shard.err_tail = (shard.err_tail + chunk)[-4000:]
    os.close(fd)


def run_shards(tag, prop, tier, seed, rundir, nshards=None, scale=None, time_cap=None, watchdog=600,
               extra_args=None, wrap=None, cwd=None, stall_s=None, extra_env=None, pty=False):
    """Run all shards of one (build, property, tier) in parallel; return the list of Shard objects."""
    cmd, _ = build(tag)
    nshards = nshards or NSHARDS
    shards = [Shard(i) for i in range(nshards)]
    procs = []
    for s in shards:
        outp = os.path.join(rundir, "%s-%s-%d.json" % (prop, tag, s.i))
        jr = os.path.join(rundir, "%s-%s-%d.journal" % (prop, tag, s.i))
        args = list(cmd) + ["--prop", prop, "--tier", tier, "--seed", str(seed), "--shard", "%d/%d" % (s.i, nshards),
                            "--build", tag, "--out", outp, "--journal", jr]
        if scale is not None:
            args += ["--scale", str(scale)]
        if time_cap is not None:
            args += ["--time-cap", str(time_cap)]
        if extra_args:
            args += extra_args
        if wrap:
            args = wrap(s.i) + args
        s.out_path, s.journal_path = outp, jr
        t0 = time.time()
        env = worker_env(tag)
        if extra_env:
            env.update(extra_env)
        if tag == "miri":
            # every shard gets its own scheduler seed, so thread cases see different interleavings
            env["MIRIFLAGS"] = env.get("MIRIFLAGS", "") + " -Zmiri-seed=%d" % (seed * 64 + s.i)
        if pty:
            # fds 0/1/2 of the worker are a terminal (isatty() is true); whatever is written to it
            # arrives at the master side, which this process reads
            master, slave = os.openpty()
            p = subprocess.Popen(args, env=env, cwd=cwd or HARNESS, stdin=slave, stdout=slave, stderr=slave,
                                 start_new_session=True)
            os.close(slave)
            th1 = threading.Thread(target=_drain_fd, args=(master, s))
            th2 = threading.Thread(target=lambda: None)
        else:
            p = subprocess.Popen(args, env=env, cwd=cwd or HARNESS, stdout=subprocess.PIPE, stderr=subprocess.PIPE,
                                 start_new_session=True)
            th1 = threading.Thread(target=_drain, args=(p.stdout, s, "out"))
            th2 = threading.Thread(target=_drain, args=(p.stderr, s, "err"))
        th1.start()
        th2.start()
        procs.append((s, p, th1, th2, t0))
    deadline = time.time() + watchdog
    # progress monitor: a worker whose journal (the case it is executing) has not changed for
    # `stall` seconds is stuck inside one case; it is stopped and the case is examined alone
    stall = stall_s if stall_s is not None else (STALL_S.get(tag, 60))
    last = {s.i: (None, time.time()) for s in shards}
    live = {s.i: (s, p) for s, p, _, _, _ in procs}
    while live:
        time.sleep(0.25 if time.time() - min(t0 for _, _, _, _, t0 in procs) < 5 else 1.0)
        nowt = time.time()
        for i in list(live):
            s, p = live[i]
            if p.poll() is not None:
                del live[i]
                continue
            try:
                cur = open(s.journal_path).read(64)
            except OSError:
                cur = None
            if cur != last[i][0]:
                last[i] = (cur, nowt)
            elif cur and nowt - last[i][1] > stall:
                parts = cur.split()
                if len(parts) >= 2 and parts[0] != "<done>":
                    s.stalled = (parts[0], int(parts[1]))
                s.timed_out = True
            if nowt > deadline:
                s.timed_out = True
            if s.timed_out:
                try:
                    os.killpg(p.pid, signal.SIGKILL)
                except ProcessLookupError:
                    pass
                p.wait()
                del live[i]
    for s, p, th1, th2, t0 in procs:
        p.wait()
        th1.join()
        th2.join()
        s.rc = p.returncode
        s.wall = time.time() - t0
        if os.path.exists(s.out_path):
            try:
                s.report = json.load(open(s.out_path))
            except Exception:
                s.report = None
        if os.path.exists(s.journal_path):
            try:
                line = open(s.journal_path).read(64)
                parts = line.split()
                if len(parts) >= 2:
                    s.journal = (parts[0], int(parts[1]))
            except Exception:
                pass
    return shards


def run_only(tag, prop, tier, seed, stream, idx, timeout=300, fail_alloc=None):
    """Re-execute one case in a fresh process; returns (rc, stdout+stderr)."""
    cmd, _ = build(tag)
    args = list(cmd) + ["--prop", prop, "--tier", tier, "--seed", str(seed), "--build", tag,
                        "--only", "%s:%d" % (stream, idx)]
    if fail_alloc:
        args += ["--fail-alloc", str(fail_alloc)]
    try:
        p = subprocess.run(args, env=worker_env(tag), cwd=HARNESS, stdout=subprocess.PIPE, stderr=subprocess.PIPE, timeout=timeout)
    except subprocess.TimeoutExpired:
        return None, "timeout"
    return p.returncode, p.stdout.decode("utf-8", "replace")[-6000:] + "\n--- stderr ---\n" + p.stderr.decode("utf-8", "replace")[-3000:]


# ---------------------------------------------------------------------------------------------
# merging


HLL_P = 14
HLL_M = 1 << HLL_P


def hll_estimate(regs):
    m = float(HLL_M)
    alpha = 0.7213 / (1 + 1.079 / m)
    z = sum(2.0 ** (-r) for r in regs)
    e = alpha * m * m / z
    zeros = regs.count(0)
    if e <= 2.5 * m and zeros:
        e = m * math.log(m / zeros)
    return e


class Merged:
    def __init__(self):
        self.evaluations = {}
        self.nontrivial = {}
        self.buckets = {}
        self.observations = {}
        self.samples = []
        self.violations = []
        self.sig_counts = {}
        self.regs = [0] * HLL_M
        self.exact = set()
        self.exact_valid = True
        self.truncated = False
        self.notes = []
        self.streams = {}
        self.digests = {}
        self.selfcheck_flags = {}
        self.worker_wall = {}

    def add(self, tag, rep):
        self.evaluations[tag] = self.evaluations.get(tag, 0) + rep["evaluations"]
        self.nontrivial[tag] = self.nontrivial.get(tag, 0) + rep["nontrivial"]
        b = self.buckets.setdefault(tag, {})
        for k, v in rep["buckets"].items():
            b[k] = b.get(k, 0) + v
            if k.startswith("selfcheck."):
                self.selfcheck_flags[k] = self.selfcheck_flags.get(k, 0) + v
        for k, v in rep.get("observations", {}).items():
            self.observations[k] = self.observations.get(k, 0) + v
        if len(self.samples) < 8:
            for s in rep["samples"][:2]:
                if len(self.samples) < 8:
                    self.samples.append(s)
        for v in rep["violations"]:
            v = dict(v, build=tag)
            self.violations.append(v)
        for k, v in rep["sig_counts"].items():
            self.sig_counts[k] = self.sig_counts.get(k, 0) + v
        h = rep["hll"]
        if h:
            for item in h.split(","):
                i, r = item.split(":")
                i, r = int(i), int(r)
                if r > self.regs[i]:
                    self.regs[i] = r
        if rep["exact_overflowed"]:
            self.exact_valid = False
        elif self.exact_valid:
            self.exact.update(rep["exact"])
            if len(self.exact) > (1 << 22):
                self.exact_valid = False
                self.exact = set()
        self.truncated = self.truncated or rep["truncated"]
        self.notes += rep.get("notes", [])[:5]
        for s in rep["streams"]:
            d = self.streams.setdefault(tag, {}).setdefault(s["name"], {"count": s["count"], "done": 0, "cut": False})
            d["done"] += s["done_in_shard"]
            d["cut"] = d["cut"] or s["cut_by_time_cap"]
        for idx, dg in rep.get("digests", []):
            self.digests.setdefault(tag, {})[idx] = dg
        self.worker_wall[tag] = max(self.worker_wall.get(tag, 0.0), float(rep.get("wall_s", 0)))

    def distinct(self):
        if self.exact_valid:
            return len(self.exact), "exact (set union of 64-bit case hashes over all shards and builds)"
        est = hll_estimate(self.regs)
        sigma = 1.04 / math.sqrt(HLL_M)
        return int(est * (1 - 3 * sigma)), "HyperLogLog p=14 merged over all shards and builds, reported at -3 sigma"


# ---------------------------------------------------------------------------------------------
# known findings


def load_known():
    p = os.path.join(ROOT, "known_findings.json")
    if not os.path.exists(p):
        return []
    return json.load(open(p)).get("findings", [])


def is_known_open(known, prop, signature):
    for k in known:
        if k.get("status") == "open" and k.get("property") == prop and k.get("signature") == signature:
            return k
    return None


# ---------------------------------------------------------------------------------------------
# per-property plans: which builds / extra monitors each tier uses (DESIGN section 5)

ODD_ALLOC_PROPS = {"C01", "C02", "C05", "C10", "C20"}
MIRI_QUICK = {"C02": 1.0, "C09": 1.0, "C13": 1.0, "C18": 1.0, "C19": 1.0}
MIRI_THOROUGH = {"C01": 4.0, "C02": 8.0, "C05": 2.0, "C09": 4.0, "C11": 4.0, "C12": 2.0, "C13": 8.0, "C18": 8.0, "C19": 2.0}
ASAN_THOROUGH = {"C01": 20.0, "C02": 20.0, "C05": 10.0, "C07": 10.0, "C08": 10.0, "C09": 20.0, "C11": 20.0, "C12": 10.0, "C13": 20.0, "C18": 20.0}
TSAN_THOROUGH = {"C19": 1.0}

# fault enumeration: "the k-th allocation request made during a codec call is refused"
ALLOCFAIL_PROPS = {"C03": 10, "C04": 10, "C05": 8, "C06": 8, "C10": 10, "C11": 8, "C12": 8, "C15": 10}
ALLOCFAIL_MAX_K = 40


def allocfail_stage(prop, tier, seed, hard, inconclusive, extra_cov, stages):
    """For a few cases of each stream, re-run the case in a fresh process with the k-th allocation
    inside codec calls refused (k = 1..40). Clean code cannot continue without memory: the process
    aborts (std's handle_alloc_error), which is the loud failure. A process that survives an
    injected failure and then fails the case's own oracle has carried on with a wrong answer."""
    from concurrent.futures import ThreadPoolExecutor
    t0 = now()
    cmd, _ = build("rel")
    meta = worker_meta(prop, "quick")
    n_cases = ALLOCFAIL_PROPS[prop] * (3 if tier == "thorough" else 1)
    jobs = []
    for sdef in meta["streams"]:
        if sdef["count"] <= 0 or sdef["name"] in ("big", "giant", "soak", "full_sweep", "flagwords", "small_exhaustive", "payload_lengths"):
            continue
        for idx in range(min(n_cases, sdef["count"])):
            # spread over the stream
            real_idx = (idx * 7919 + seed * 104729) % sdef["count"]
            for k in range(1, ALLOCFAIL_MAX_K + 1):
                jobs.append((sdef["name"], real_idx, k))
        if len(jobs) > 4000:
            break

    def one(job):
        stream, idx, k = job
        args = list(cmd) + ["--prop", prop, "--tier", "quick", "--seed", str(seed), "--build", "rel", "--only", "%s:%d" % (stream, idx), "--fail-alloc", str(k)]
        try:
            p = subprocess.run(args, env=worker_env("rel"), cwd=HARNESS, stdout=subprocess.PIPE, stderr=subprocess.PIPE, timeout=120)
        except subprocess.TimeoutExpired:
            return job, "timeout", ""
        out = p.stdout.decode("utf-8", "replace")
        fired = "fired=true" in out
        if p.returncode == 0:
            return job, "survived-held" if fired else "not-reached", ""
        if p.returncode == 1 and fired:
            m = re.search(r"REPLAY-VIOLATION property=\S+ signature=(\S+) detail=([^\n]*)", out)
            return job, "survived-wrong", (m.group(1), m.group(2)[:400]) if m else ("?", out[-300:])
        if p.returncode == 1:
            return job, "violates-anyway", ""
        if p.returncode == 101:
            return job, "harness-panic", ""
        return job, "aborted", ""

    counts = {}
    wrong = []
    with ThreadPoolExecutor(max_workers=NSHARDS) as ex:
        for job, outcome, info in ex.map(one, jobs):
            counts[outcome] = counts.get(outcome, 0) + 1
            if outcome == "survived-wrong":
                wrong.append((job, info))
    stage = {"build": "rel+allocation-failure-injection", "cases_x_failure_points": len(jobs), "outcomes": counts, "wall_s": round(now() - t0, 1)}
    stages.append(stage)
    extra_cov["allocation_failure_injection"] = stage
    if counts.get("aborted", 0) + counts.get("survived-held", 0) + counts.get("survived-wrong", 0) == 0:
        inconclusive.append("allocation-failure injection never fired")
    seen = set()
    for (stream, idx, k), (sig, detail) in wrong:
        key = sig
        if key in seen:
            continue
        seen.add(key)
        hard.append({"signature": "%s:allocation-failure:carries-on-with-wrong-result:%s" % (prop, sig.split(":", 1)[-1][:80]), "build": "rel", "stream": stream, "idx": idx, "tier": "quick",
                     "fail_alloc": k,
                     "detail": "with allocation request #%d of the codec calls refused, case %s:%d neither aborted nor reported an error but went on and failed its oracle: %s" % (k, stream, idx, detail),
                     "witness": {"refused_allocation": k}})


BROAD_PROPS = ["C01", "C03", "C05", "C08", "C10", "C13", "C15", "C20"]
FUZZ_THOROUGH = {"C01": "decode", "C02": "decode", "C05": "decode", "C10": "decode", "C14": "decode", "C12": "reveal", "C13": "reveal"}
FUZZ_SECONDS = int(os.environ.get("VERIF_FUZZ_SECONDS", "240"))
FUZZ_DIR = os.path.join(ROOT, "fuzz")


def fuzz_stage(prop, target, seed, rundir, hard, inconclusive, extra_cov, stages):
    """G-fuzz: libFuzzer (+ASan) drives the same oracles; a crash is a violation, the artifact is
    the replay."""
    t0 = now()
    shutil.copy(os.path.join(HARNESS, "Cargo.lock"), os.path.join(FUZZ_DIR, "Cargo.lock")) if not os.path.exists(os.path.join(FUZZ_DIR, "Cargo.lock")) else None
    rc, out = sh(["cargo", "+nightly", "fuzz", "build", "--fuzz-dir", FUZZ_DIR, target], cwd=FUZZ_DIR, timeout=1800)
    if rc != 0:
        inconclusive.append("fuzz build failed: " + out[-600:])
        return
    binary = os.path.join(FUZZ_DIR, "target/x86_64-unknown-linux-gnu/release", target)
    corpus = os.path.join(rundir, "fuzz-corpus")
    art = os.path.join(rundir, "fuzz-artifacts")
    os.makedirs(corpus, exist_ok=True)
    os.makedirs(art, exist_ok=True)
    cmd, _ = build("rel")
    if target == "decode":
        sh(list(cmd) + ["--dump-corpus", corpus, "--seed", str(seed)], cwd=HARNESS, timeout=120)
    env = dict(ENV_BASE, VP_FUZZ_PROP=prop, ASAN_OPTIONS="detect_leaks=0:allocator_may_return_null=1")
    args = [binary, corpus, "-fork=%d" % NSHARDS, "-max_total_time=%d" % FUZZ_SECONDS, "-timeout=10", "-max_len=600",
            "-seed=%d" % seed, "-artifact_prefix=" + art + "/", "-print_final_stats=1", "-use_value_profile=1"]
    try:
        p = subprocess.run(args, env=env, cwd=rundir, stdout=subprocess.PIPE, stderr=subprocess.STDOUT, timeout=FUZZ_SECONDS * 3 + 300)
        rc, log = p.returncode, p.stdout.decode("utf-8", "replace")
    except subprocess.TimeoutExpired:
        inconclusive.append("fuzz run exceeded its wall-clock watchdog")
        return
    execs = 0
    for m in re.finditer(r"#(\d+): cov: (\d+) ft: (\d+) corp: (\d+) exec/s:? (\d+)", log):
        execs = max(execs, int(m.group(1)))
    m2 = re.findall(r"stat::number_of_executed_units:\s*(\d+)", log)
    if m2:
        execs = max(execs, max(int(x) for x in m2))
    cov = [int(m.group(2)) for m in re.finditer(r"#(\d+): cov: (\d+)", log)]
    arts = sorted(os.listdir(art))
    stage = {"build": "fuzz(libFuzzer+ASan)", "target": target, "seconds": FUZZ_SECONDS, "forks": NSHARDS, "executions": execs,
             "coverage_edges": max(cov) if cov else None, "corpus_files": len(os.listdir(corpus)), "artifacts": len(arts), "exit": rc,
             "wall_s": round(now() - t0, 1)}
    stages.append(stage)
    extra_cov["fuzz"] = stage
    if execs == 0:
        inconclusive.append("fuzz stage executed nothing (exit %s): %s" % (rc, log[-400:]))
    for a in arts[:5]:
        src = os.path.join(art, a)
        # run the artifact alone to learn which oracle fired
        try:
            q = subprocess.run([binary, src], env=env, cwd=rundir, stdout=subprocess.PIPE, stderr=subprocess.STDOUT, timeout=120)
            text = q.stdout.decode("utf-8", "replace")
        except subprocess.TimeoutExpired:
            text = "timeout"
        mv = re.search(r"VP-VIOLATION property=(\S+) signature=(\S+) detail=([^\n]*)", text)
        os.makedirs(os.path.join(ROOT, "replays"), exist_ok=True)
        keep = os.path.join(ROOT, "replays", "%s-fuzz-%s" % (prop, a[:40]))
        shutil.copy(src, keep)
        if mv:
            sig, detail = mv.group(2), mv.group(3)
        elif a.startswith("timeout") or a.startswith("slow"):
            inconclusive.append("fuzz input %s hit the per-input timeout" % keep)
            continue
        elif a.startswith("oom"):
            inconclusive.append("fuzz input %s hit the memory limit" % keep)
            continue
        else:
            sig = "%s:fuzz:%s" % (prop, classify_abort(text))
            detail = first_report_line(text) or text[-300:]
        hard.append({"signature": sig, "build": "fuzz", "stream": None, "idx": None, "tier": "thorough",
                     "detail": "coverage-guided input %s: %s" % (keep, detail[:500]),
                     "witness": {"fuzz_target": target, "artifact": keep, "input_hex": open(src, "rb").read()[:600].hex()}})


ASSUMPTIONS_COMMON = [
    "the reference specification in harness/src/spec (self-checked before every run: RFC 1321 vectors, UTF-8 validator vs std, reference encode/decode and hide/reveal round trips)",
    "glue.rs converts between crate values and reference values through the crate's public fields and constructors only; bitmask words are read from the derived Debug output",
    "conventions adopted from the crate, DESIGN 4.2: flag-bit numbering (T=8,L=9,S=12,O=14,P=15 of the big-endian word), 4-octet Random Vector, hidden original-length subfield = value length + 6, liberal acceptance of surplus / reserved octets",
    "runtime monitoring decides only the executions produced: held on the cases listed under coverage, not proved for all inputs",
]


def now():
    return time.time()


def check(prop, tier, seed):
    t_start = now()
    rundir = tempfile.mkdtemp(prefix="vp-%s-" % prop, dir=os.path.join(ROOT, "run"))
    try:
        return _check(prop, tier, seed, rundir, t_start)
    finally:
        shutil.rmtree(rundir, ignore_errors=True)


def _check(prop, tier, seed, rundir, t_start):
    known = load_known()
    merged = Merged()
    hard = []          # violations found by the supervisor itself (aborts, fd output, sanitizer reports)
    stages = []
    inconclusive = []

    # trusted base first
    cmd, _ = build("rel")
    rc, out = sh(list(cmd) + ["--selfcheck"], cwd=HARNESS, timeout=600)
    if rc != 0:
        raise Inconclusive("reference self-check failed: " + out[-2000:])
    selfcheck_line = out.strip().splitlines()[-1] if out.strip() else ""

    # random (non-exhaustive) streams are scaled per tier; exhaustive streams always run in full
    native_scale = float(os.environ.get("VERIF_SCALE", "4.0" if tier == "quick" else "8.0"))
    plan = [("dbg", tier, native_scale), ("rel", tier, native_scale)]
    if prop in ODD_ALLOC_PROPS:
        plan.append(("odd", tier, 0.5 if tier == "quick" else 2.0))
    if tier == "quick" and prop in MIRI_QUICK:
        plan.append(("miri", "miri", MIRI_QUICK[prop]))
    if tier == "thorough":
        if prop in MIRI_THOROUGH:
            plan.append(("miri", "miri", MIRI_THOROUGH[prop]))
        if prop in ASAN_THOROUGH:
            plan.append(("asan", "san", ASAN_THOROUGH[prop]))
        if prop in TSAN_THOROUGH:
            plan.append(("tsan", "san", TSAN_THOROUGH[prop]))

    fd_out_total = 0
    fd_err_total = 0
    confirmed_hangs = []
    for tag, wtier, scale in plan:
        t0 = now()
        try:
            build(tag)
        except Inconclusive as e:
            if tag in ("dbg", "rel"):
                raise
            inconclusive.append("build %s unavailable: %s" % (tag, str(e)[-400:]))
            continue
        wd = {"dbg": 900, "rel": 900, "odd": 900, "miri": 1500, "asan": 1500, "tsan": 1500}[tag]
        if tier == "thorough":
            wd *= 4
        shards = run_shards(tag, prop, wtier, seed, rundir, scale=scale, watchdog=wd)
        stage = {"build": tag, "tier": wtier, "shards": len(shards), "wall_s": round(now() - t0, 2), "abnormal_exits": 0,
                 "stdout_octets": 0, "stderr_octets": 0}
        for s in shards:
            stage["stdout_octets"] += s.out_bytes
            stage["stderr_octets"] += s.err_bytes
            if s.timed_out and s.stalled:
                # stuck inside one case: confirm alone, with a bound that is orders of magnitude
                # above what any case needs
                stream, idx = s.stalled
                if confirmed_hangs:
                    # one confirmed non-terminating case is enough; the other stuck workers are
                    # recorded without spending another confirmation bound on each
                    confirmed_hangs.append((tag, stream, idx))
                    continue
                rc2, out2 = run_only(tag, prop, wtier, seed, stream, idx, timeout=300 if tag != "miri" else 1200)
                if rc2 is None:
                    confirmed_hangs.append((tag, stream, idx))
                if rc2 is None:
                    v = {"signature": "%s:hang:%s" % (prop, stream), "build": tag, "stream": stream, "idx": idx, "tier": wtier,
                         "detail": "case %s:%d made no progress for %d s inside a worker and did not finish within %d s when executed alone in a fresh process (other cases of this stream take micro- to milliseconds): the call does not terminate" % (stream, idx, STALL_S.get(tag, 60), 300 if tag != "miri" else 1200),
                         "witness": {"replay": "./check --replay on this file re-executes the case (it will not return)"}}
                    if prop in ("C01", "C13"):
                        hard.append(v)
                    else:
                        inconclusive.append("case %s:%d does not terminate (%s build); termination is judged by C01/C13, this check cannot complete" % (stream, idx, tag))
                else:
                    inconclusive.append("%s shard %d stalled at %s:%d but the case finished alone (status %s)" % (tag, s.i, stream, idx, rc2))
                continue
            if s.timed_out:
                inconclusive.append("%s shard %d hit the wall-clock watchdog (%ds) at %s" % (tag, s.i, wd, s.journal))
                continue
            if s.rc == 0 and s.report is not None:
                merged.add(tag, s.report)
                continue
            # abnormal exit: attribute to a case through the journal and confirm in a fresh process
            stage["abnormal_exits"] += 1
            why = "signal %d" % (-s.rc) if s.rc is not None and s.rc < 0 else "exit status %s" % s.rc
            tail = s.err_tail.decode("utf-8", "replace")
            if s.rc == 101:
                # a Rust panic that escaped main: every call into the codec runs under panic
                # capture, so this is a defect of the harness itself, never a verdict on the code
                inconclusive.append("%s shard %d: the harness itself panicked at %s (exit status 101): %s" % (tag, s.i, s.journal, tail[-300:]))
                continue
            if s.journal and s.journal[0] != "<done>":
                stream, idx = s.journal
                rc2, out2 = run_only(tag, prop, wtier, seed, stream, idx)
                if tag == "miri":
                    # the interpreter reports undefined behaviour with exit status 1
                    reproduced = rc2 is not None and ("Undefined Behavior" in out2 or "Data race detected" in out2 or rc2 not in (0, 1, 101))
                else:
                    reproduced = rc2 is not None and rc2 not in (0, 1, 101)
                if reproduced:
                    first = first_report_line(tail + "\n" + out2)
                    hard.append({
                        "signature": "%s:abort:%s:%s" % (prop, tag, classify_abort(tail + out2)),
                        "build": tag, "stream": stream, "idx": idx, "tier": wtier,
                        "detail": "worker died (%s) while executing case %s:%d; reproduced in a fresh process (status %s). %s" % (why, stream, idx, rc2, first),
                        "witness": {"stderr_tail": (tail + out2)[-1500:]},
                    })
                else:
                    inconclusive.append("%s shard %d died (%s) at %s:%d but the case did not reproduce alone (status %s)" % (tag, s.i, why, stream, idx, rc2))
            else:
                inconclusive.append("%s shard %d died (%s) outside any case: %s" % (tag, s.i, why, tail[-300:]))
        fd_out_total += stage["stdout_octets"]
        fd_err_total += stage["stderr_octets"] if tag in ("dbg", "rel") else 0
        stages.append(stage)

    extra_cov = {}
    if prop in ALLOCFAIL_PROPS:
        allocfail_stage(prop, tier, seed, hard, inconclusive, extra_cov, stages)
    if tier == "thorough" and prop in FUZZ_THOROUGH:
        fuzz_stage(prop, FUZZ_THOROUGH[prop], seed, rundir, hard, inconclusive, extra_cov, stages)
    if prop == "C19":
        c19_extra(tier, seed, rundir, merged, hard, inconclusive, extra_cov, stages)
    if tier == "thorough" or os.environ.get("VERIF_COV"):
        # reach audit (cov.py): which lines / branch sides of /repo/src this property's workload
        # executed. An observation for the evidence file; it can never change the verdict.
        try:
            import cov
            cov.vp.ENV_BASE.update(ENV_BASE)
            r = cov.audit(prop, seed)
            r.pop("_raw", None)
            for f in r.get("files", {}).values():
                f["lines_not_executed"] = f["lines_not_executed"][:12]
                f["lines_with_a_branch_side_not_taken"] = f["lines_with_a_branch_side_not_taken"][:12]
            extra_cov["source_coverage"] = r
        except Exception as e:  # tool missing or failing: nothing observed, nothing claimed
            extra_cov["source_coverage"] = {"unavailable": str(e)[:300]}

    # ------------------------------------------------------------------ verdict
    classes = {}
    for v in merged.violations + hard:
        classes.setdefault(v["signature"], []).append(v)
    new_classes = []
    known_lines = []
    for sig, vs in sorted(classes.items()):
        k = is_known_open(known, prop, sig)
        if k:
            known_lines.append("KNOWN-FINDING: property=%s %s [%s]" % (prop, k.get("what", sig), sig))
        else:
            new_classes.append((sig, vs))

    distinct, how = merged.distinct()
    evaluations = sum(merged.evaluations.values())
    floors = floors_for(prop, tier)
    unmet = []
    for tag in ("dbg", "rel"):
        b = merged.buckets.get(tag, {})
        for name, minimum in floors:
            if b.get(name, 0) < minimum:
                unmet.append("%s: bucket %s = %d < floor %d" % (tag, name, b.get(name, 0), minimum))
    if merged.selfcheck_flags:
        inconclusive.append("harness self-check flags raised: %s" % merged.selfcheck_flags)

    replay_paths = []
    os.makedirs(os.path.join(ROOT, "replays"), exist_ok=True)
    for sig, vs in new_classes:
        v = vs[0]
        h = hashlib.sha1(sig.encode()).hexdigest()[:10]
        path = os.path.join(ROOT, "replays", "%s-%s.json" % (prop, h))
        json.dump({"property": prop, "signature": sig, "build": v.get("build"), "tier": v.get("tier", tier if v.get("build") in ("dbg", "rel") else ("miri" if v.get("build") == "miri" else "san")),
                   "seed": seed, "stream": v.get("stream"), "idx": v.get("idx"), "fail_alloc": v.get("fail_alloc"), "detail": v.get("detail"), "witness": v.get("witness"),
                   "occurrences": merged.sig_counts.get(sig, len(vs))}, open(path, "w"), indent=1)
        replay_paths.append((sig, path, v))

    exhaustive_streams = sorted({n for tag in ("dbg", "rel") for n, d in merged.streams.get(tag, {}).items() if d["done"] == d["count"] and not d["cut"]} & set(exhaustive_names(prop, tier)))
    coverage = {
        "evaluations": evaluations,
        "distinct_nontrivial": distinct,
        "rule": rule_for(prop) + " Counting: " + how + ". Every case is executed in the debug-assertions build and the release build (evaluations counts both).",
        "samples": merged.samples[:8],
        "exhaustive": bool(exhaustive_streams) and set(exhaustive_streams) == {s_["name"] for s_ in worker_meta(prop, tier)["streams"] if s_["count"] > 0} and all(s_["exhaustive"] for s_ in worker_meta(prop, tier)["streams"] if s_["count"] > 0),
        "exhaustive_streams": exhaustive_streams,
        "evaluations_by_build": merged.evaluations,
        "nontrivial_by_build": merged.nontrivial,
        "streams": merged.streams,
        "buckets": merged.buckets,
        "observations": merged.observations,
        "stages": stages,
        "floors_unmet": unmet,
        "reference_selfcheck": selfcheck_line,
        "source_dictionary": {"what": "integer / short string literals harvested from /repo/src (test modules excluded) and offered to the generators (G-dict); one case in 16 draws half of its integers from it",
                              "rare_integers": DICT[1][:60], "strings": len(DICT[2]), "all_integer_literals": len(DICT[0])},
        "violation_classes": {sig: merged.sig_counts.get(sig, len(vs)) for sig, vs in classes.items()},
        "known_findings_matched": known_lines,
    }
    coverage.update(extra_cov)
    verdict = "held"
    if new_classes:
        verdict = "violated"
    elif inconclusive or unmet:
        verdict = "inconclusive"
    coverage["verdict"] = verdict
    coverage["inconclusive_reasons"] = inconclusive
    evidence = {
        "property_id": prop,
        "tier": tier,
        "seed": seed,
        "level": "exploration",
        "coverage": coverage,
        "assumptions": ASSUMPTIONS_COMMON,
        "wall_s": round(now() - t_start, 2),
        "violations": len(new_classes),
    }
    os.makedirs(os.path.join(ROOT, "evidence"), exist_ok=True)
    tmp = os.path.join(ROOT, "evidence", ".%s.json.tmp" % prop)
    json.dump(evidence, open(tmp, "w"), indent=1)
    os.replace(tmp, os.path.join(ROOT, "evidence", "%s.json" % prop))

    print("%s %s seed=%d: %d evaluations (%s), %d distinct non-trivial, %d violation classes, %.1fs" % (
        prop, tier, seed, evaluations, ", ".join("%s=%d" % kv for kv in sorted(merged.evaluations.items())), distinct, len(new_classes), now() - t_start))
    for line in known_lines:
        print(line)
    for sig, path, v in replay_paths:
        print("VIOLATION property=%s replay=%s" % (prop, path))
        print("  class: %s (%d occurrences)" % (sig, merged.sig_counts.get(sig, 1)))
        print("  %s" % (v.get("detail") or "")[:600])
    if verdict == "violated":
        return 1
    if verdict == "inconclusive":
        for r in inconclusive + unmet:
            print("INCONCLUSIVE property=%s reason=%s" % (prop, r))
        return 2
    return 0


def first_report_line(text):
    for line in text.splitlines():
        if "VP-ABORT" in line or "unsafe precondition" in line or "ERROR: AddressSanitizer" in line or "Undefined Behavior" in line or "WARNING: ThreadSanitizer" in line or "panicked at" in line or "error: " in line:
            return line.strip()[:400]
    return ""


def classify_abort(text):
    m = re.search(r"VP-ABORT non-unwinding panic: ([^\n]{0,160})", text)
    if m and "unsafe precondition" not in m.group(1):
        return "non-unwinding-panic:" + re.sub(r"[0-9]+", "N", m.group(1))[:80]
    if "unsafe precondition" in text:
        m = re.search(r"unsafe precondition\(s\) violated: ([a-zA-Z_:<>\[\]]+)", text)
        return "ub-check:" + (m.group(1) if m else "?")
    if "AddressSanitizer" in text:
        m = re.search(r"AddressSanitizer: ([a-z-]+)", text)
        return "asan:" + (m.group(1) if m else "?")
    if "ThreadSanitizer" in text:
        return "tsan:data-race"
    if "Undefined Behavior" in text:
        m = re.search(r"Undefined Behavior: ([^\n]{0,80})", text)
        return "miri:" + re.sub(r"[0-9]+", "N", m.group(1) if m else "?")[:60]
    if "Data race detected" in text:
        return "miri:data-race"
    if "memory allocation of" in text:
        return "alloc-failure"
    return "crash"


_defs_cache = {}


def worker_meta(prop, tier):
    """Ask the worker for the property's rule / floors / stream definitions."""
    key = (prop, tier)
    if key in _defs_cache:
        return _defs_cache[key]
    cmd, _ = build("rel")
    rc, out = sh(list(cmd) + ["--meta", prop, "--tier", tier], cwd=HARNESS, timeout=60)
    if rc != 0:
        raise Inconclusive("worker --meta failed: " + out[-500:])
    _defs_cache[key] = json.loads(out.strip().splitlines()[-1])
    return _defs_cache[key]


def floors_for(prop, tier):
    return [(f[0], f[1]) for f in worker_meta(prop, tier)["floors"]]


def rule_for(prop):
    return worker_meta(prop, "quick")["rule"]


def exhaustive_names(prop, tier):
    return [s["name"] for s in worker_meta(prop, tier)["streams"] if s["exhaustive"]]


# ---------------------------------------------------------------------------------------------
# C19: process-level monitors


def c19_extra(tier, seed, rundir, merged, hard, inconclusive, extra_cov, stages):
    prop = "C19"
    # (1) fd monitor: the workers above ran with fds 1/2 on pipes owned by this process and report
    # only through files, so any octet there comes from the library
    out_total = sum(s["stdout_octets"] for s in stages if s["build"] in ("dbg", "rel"))
    err_total = sum(s["stderr_octets"] for s in stages if s["build"] in ("dbg", "rel"))
    extra_cov["fd_monitor"] = {"stdout_octets": out_total, "stderr_octets": err_total,
                               "workers_observed": sum(s["shards"] for s in stages if s["build"] in ("dbg", "rel"))}
    if out_total or err_total:
        # find a sample
        hard.append({"signature": "C19:fd-output:%s" % ("stdout" if out_total else "stderr"), "build": "rel", "stream": "history", "idx": 0,
                     "detail": "the codec wrote %d octets to stdout and %d octets to stderr during the purity workload (workers report only through files)" % (out_total, err_total),
                     "witness": {"stdout_octets": out_total, "stderr_octets": err_total}})
    # (2) strace: count write-family syscalls on fds 1/2 of one worker per build
    st = {}
    for tag in ("dbg", "rel"):
        log = os.path.join(rundir, "strace-%s.log" % tag)
        shards = run_shards(tag, prop, tier, seed, rundir + "", nshards=1, scale=0.05 if tier == "quick" else 0.02, watchdog=600,
                            wrap=lambda i: ["strace", "-f", "-qq", "-e", "trace=write,writev,pwrite64,pwritev,sendto,sendmsg", "-o", log])
        n12 = 0
        nother = 0
        sample = None
        if os.path.exists(log):
            for line in open(log, errors="replace"):
                m = re.match(r"^\d+\s+(write|writev|pwrite64|pwritev|sendto|sendmsg)\((\d+),", line)
                if not m:
                    continue
                if m.group(2) in ("1", "2"):
                    n12 += 1
                    sample = sample or line.strip()[:200]
                else:
                    nother += 1
        else:
            inconclusive.append("strace produced no log for %s" % tag)
        st[tag] = {"write_syscalls_on_fd_1_2": n12, "write_syscalls_elsewhere(harness's own report/journal)": nother,
                   "worker_exit": shards[0].rc}
        if nother == 0:
            inconclusive.append("strace monitor saw none of the worker's own writes for %s: monitor not alive" % tag)
        if n12:
            hard.append({"signature": "C19:strace:write-on-fd-1-2", "build": tag, "stream": "history", "idx": 0,
                         "detail": "strace saw %d write-family syscalls on fd 1/2 during the purity workload, e.g. %s" % (n12, sample),
                         "witness": {"sample": sample}})
    extra_cov["strace_monitor"] = st
    # (3) the same cases in other processes with another partition (different histories): digests must agree
    base = merged.digests.get("rel", {})
    alt = run_shards("rel", prop, tier, seed, rundir, nshards=5, watchdog=900)
    compared = 0
    mismatches = []
    for s in alt:
        if s.report is None:
            inconclusive.append("history cross-check shard %d produced no report" % s.i)
            continue
        for idx, dg in s.report.get("digests", []):
            if idx in base:
                compared += 1
                if base[idx] != dg:
                    mismatches.append(idx)
    # and a few single-case fresh processes
    extra_cov["cross_process_history"] = {"cases_compared": compared, "partitions": "16 shards vs 5 shards (different predecessor calls for every case)", "mismatches": len(mismatches)}
    if compared == 0:
        inconclusive.append("cross-process history check compared nothing")
    if mismatches:
        hard.append({"signature": "C19:cross-process:result-depends-on-history", "build": "rel", "stream": "history", "idx": mismatches[0],
                     "detail": "%d call lists gave different results in two processes that had executed different calls before (first: case %d)" % (len(mismatches), mismatches[0]),
                     "witness": {"cases": mismatches[:10]}})
    # (3b) broad workloads of other properties, with fds captured, under two partitions: reaches
    # the rare paths those workloads are built to reach (every fault kind, every guard of reveal,
    # every header word, every error rendering); any octet on fd 1/2 is the library's, and the
    # merged outcome counters of the two partitions must be identical (each case's result is a
    # function of its input only, whatever ran before it in the same process)
    broad = {}
    for bp in BROAD_PROPS:
        runs = []
        for nsh in (NSHARDS, 5):
            sh_ = run_shards("rel", bp, "quick", seed, rundir, nshards=nsh, scale=1.0, watchdog=900)
            m = Merged()
            octets = [0, 0]
            ok = True
            for x in sh_:
                octets[0] += x.out_bytes
                octets[1] += x.err_bytes
                if x.rc == 0 and x.report is not None:
                    m.add("rel", x.report)
                else:
                    ok = False
            runs.append((m, octets, ok, nsh))
        (m1, o1, ok1, _), (m2, o2, ok2, _) = runs
        entry = {"cases": m1.evaluations.get("rel", 0), "stdout_octets": o1[0] + o2[0], "stderr_octets": o1[1] + o2[1], "partitions_agree": None}
        if entry["stdout_octets"] or entry["stderr_octets"]:
            hard.append({"signature": "C19:fd-output:%s:during-%s-workload" % ("stdout" if entry["stdout_octets"] else "stderr", bp), "build": "rel", "stream": None, "idx": None,
                         "detail": "the codec wrote %d octets to stdout and %d to stderr while running the %s workload (decode/encode/hide/reveal/error rendering on generated inputs)" % (entry["stdout_octets"], entry["stderr_octets"], bp),
                         "witness": {"workload": bp}})
        if ok1 and ok2:
            b1, b2 = m1.buckets.get("rel", {}), m2.buckets.get("rel", {})
            # stack.* buckets are measurements of the environment (lazy binding and first-call
            # initialisation use stack once per process), not outcomes: not compared; nor are the
            # wall-clock classes of the slow reader (how long a sleeping reader took on a loaded machine)
            diff = sorted(k for k in set(b1) | set(b2) if b1.get(k) != b2.get(k) and not k.startswith("stack.") and not k.startswith("slow_reader.took_"))
            sdiff = sorted(k for k in set(m1.sig_counts) | set(m2.sig_counts) if m1.sig_counts.get(k) != m2.sig_counts.get(k))
            entry["partitions_agree"] = not diff and not sdiff
            if diff or sdiff:
                hard.append({"signature": "C19:cross-process:aggregate-differs:%s" % bp, "build": "rel", "stream": None, "idx": None,
                             "detail": "the %s workload gave different outcome counters when the same cases were split over %d and over 5 processes (results depend on what ran before): %s" % (bp, NSHARDS, (diff + sdiff)[:6]),
                             "witness": {"workload": bp, "differing_counters": (diff + sdiff)[:20]}})
        else:
            entry["partitions_agree"] = "not compared (a worker died; totality is that property's finding)"
        broad[bp] = entry
    extra_cov["broad_workloads"] = broad
    # (3b') the same workloads once more with fds 0/1/2 of every worker on a pseudo-terminal:
    # output that is only produced when isatty() is true (progress notes, colour, warnings "for
    # humans") is invisible to pipes. Any octet arriving at the master side is the library's.
    term = {}
    try:
        _m, _s = os.openpty()
        os.close(_m)
        os.close(_s)
        pty_ok = True
    except OSError as e:
        # no pseudo-terminals in this environment: nothing is observed, nothing is claimed
        pty_ok = False
        term["unavailable"] = "os.openpty() failed: %s" % e
    for bp in ([prop] + BROAD_PROPS) if pty_ok else []:
        sh_ = run_shards("rel", bp, "quick", seed, rundir, scale=1.0, watchdog=900, pty=True)
        octets = sum(x.err_bytes for x in sh_)
        m = Merged()
        for x in sh_:
            if x.rc == 0 and x.report is not None:
                m.add("rel", x.report)
        term[bp] = {"cases": m.evaluations.get("rel", 0), "terminal_octets": octets}
        if octets:
            tail = b"".join(x.err_tail for x in sh_ if x.err_tail)[:300]
            hard.append({"signature": "C19:fd-output:terminal:during-%s-workload" % bp, "build": "rel", "stream": None, "idx": None,
                         "detail": "with stdout/stderr on a terminal the codec wrote %d octets while running the %s workload: %r" % (octets, bp, tail),
                         "witness": {"workload": bp, "fds": "pseudo-terminal", "first_octets": tail.decode("latin-1")}})
        if m.evaluations.get("rel", 0) == 0:
            inconclusive.append("terminal run of the %s workload observed no case" % bp)
    extra_cov["terminal_runs"] = term
    # (3c) environment probes: an LD_PRELOAD interposer logs every getenv() of one run of the
    # purity workload; any variable the process asks for beyond the harness's and std's own is
    # then set (to "1") for another run, whose fds and per-case digests must not change
    envp = {"armed": False}
    so = build_envprobe()
    if so:
        envp["armed"] = True
        log = os.path.join(rundir, "envprobe.log")
        run_shards("rel", prop, tier, seed, rundir, nshards=4, scale=0.5, watchdog=600,
                   extra_env={"LD_PRELOAD": so, "VP_ENVPROBE_LOG": log})
        names = set()
        if os.path.exists(log):
            names = {l.strip() for l in open(log, errors="replace") if l.strip()}
        harmless = {n for n in names if n.startswith("VP_") or n in ("RUST_MIN_STACK", "RUST_BACKTRACE", "RUST_LIB_BACKTRACE", "LD_PRELOAD")}
        suspects = sorted(names - harmless)
        envp["variables_queried"] = sorted(names)
        envp["queried_beyond_harness_and_std"] = suspects
        if not names:
            inconclusive.append("environment probe saw no getenv call at all (interposer not effective)")
        for name in suspects[:8]:
            alt2 = run_shards("rel", prop, tier, seed, rundir, nshards=4, scale=0.5, watchdog=600, extra_env={name: "1"})
            octets = sum(x.out_bytes + x.err_bytes for x in alt2)
            differing = 0
            for x in alt2:
                if x.report:
                    for idx, dg in x.report.get("digests", []):
                        if idx in base and base[idx] != dg:
                            differing += 1
            envp.setdefault("reruns", {})[name] = {"fd_octets": octets, "digests_differing": differing}
            if octets or differing:
                hard.append({"signature": "C19:environment-dependence:%s" % name, "build": "rel", "stream": None, "idx": None,
                             "detail": "the codec queries the environment variable %s while it works; with %s=1 it wrote %d octets to stdout/stderr and %d call lists gave different results" % (name, name, octets, differing),
                             "witness": {"variable": name}})
    extra_cov["environment_probe"] = envp
    # (4) M6: writable rl2tp:: statics / thread-locals of the linked workers (snapshotted by the
    # "statics" stream of the worker at quiescent points; listed here)
    wm = {}
    for tag in ("dbg", "rel"):
        _, tls, names = watch_symbols(tag)
        wm[tag] = {"watched_objects": names[:20], "count": len(names), "tls_segment(memsz:align)": tls}
    extra_cov["writable_segment_monitor"] = wm


# ---------------------------------------------------------------------------------------------


def replay(path):
    r = json.load(open(path))
    prop, tag = r["property"], r.get("build") or "dbg"
    w = r.get("witness") or {}
    if w.get("artifact"):
        binary = os.path.join(FUZZ_DIR, "target/x86_64-unknown-linux-gnu/release", w["fuzz_target"])
        rc, out = sh(["cargo", "+nightly", "fuzz", "build", "--fuzz-dir", FUZZ_DIR, w["fuzz_target"]], cwd=FUZZ_DIR, timeout=1800)
        p = subprocess.run([binary, w["artifact"]], env=dict(ENV_BASE, VP_FUZZ_PROP=prop), stdout=subprocess.PIPE, stderr=subprocess.STDOUT)
        print(p.stdout.decode("utf-8", "replace")[-3000:])
        return 0 if p.returncode == 0 else 1
    if r.get("stream") is None:
        print("replay file carries no case (supervisor-level finding): %s" % r.get("detail"))
        return 2
    rc, out = run_only(tag, prop, r.get("tier") or "quick", r["seed"], r["stream"], int(r["idx"]), fail_alloc=r.get("fail_alloc"))
    print(out[-4000:])
    if rc == 0:
        print("REPLAY: property=%s held on %s:%s (%s build)" % (prop, r["stream"], r["idx"], tag))
        return 0
    print("REPLAY: property=%s violated on %s:%s (%s build), status %s" % (prop, r["stream"], r["idx"], tag, rc))
    return 1


def setup():
    t0 = time.time()
    os.makedirs(os.path.join(ROOT, "run"), exist_ok=True)
    # spec/ must not mention the codec under test
    rc, out = sh(["grep", "-rn", "rl2tp", os.path.join(HARNESS, "src/spec")])
    if rc == 0:
        print("setup: harness/src/spec mentions rl2tp:\n" + out)
        return 2
    extract_vectors()
    print("setup: environment probe %s" % ("built" if build_envprobe() else "not available (no C compiler)"))
    for tag in ("dbg", "rel", "odd", "miri"):
        try:
            _, dt = build(tag)
            print("setup: built %s in %.1fs" % (tag, dt))
        except Inconclusive as e:
            print("setup: %s" % e)
            if tag != "miri":
                return 2
    cmd, _ = build("rel")
    rc, out = sh(list(cmd) + ["--selfcheck"], cwd=HARNESS)
    print(out.strip())
    if rc != 0:
        return 2
    print("setup done in %.1fs" % (time.time() - t0))
    return 0


def extract_vectors():
    """Transcribe the maintainers' decode vectors (src/message/tests/valid_avp.rs) as data for the
    reference self-check: name + hex of each `vec![ 0x.. ]` literal that follows a `name:` label."""
    src = os.path.join(REPO, "src/message/tests/valid_avp.rs")
    dst = os.path.join(HARNESS, "vectors.txt")
    try:
        text = open(src).read()
    except OSError:
        return
    text = re.sub(r"//[^\n]*", "", text)
    out = []
    for m in re.finditer(r"([a-z_0-9]+)\s*:\s*vec!\[([^\]]*)\]", text):
        if not re.match(r"^[\s0-9a-fA-Fx,]*$", m.group(2)):
            continue
        octets = re.findall(r"0x([0-9a-fA-F]{2})", m.group(2))
        if len(octets) >= 12 and octets[0] == "13":
            out.append("%s %s" % (m.group(1), "".join(octets)))
    new = "\n".join(out) + "\n"
    old = open(dst).read() if os.path.exists(dst) else None
    if new != old:
        open(dst, "w").write(new)


def main():
    if len(sys.argv) < 2:
        print(__doc__)
        return 2
    os.makedirs(os.path.join(ROOT, "run"), exist_ok=True)
    mode = sys.argv[1]
    global DICT
    DICT = install_dict() or ([], [], [])
    try:
        if mode == "setup":
            return setup()
        if mode == "replay":
            return replay(sys.argv[2])
        if mode == "check":
            prop = sys.argv[2]
            tier = os.environ.get("VERIF_TIER") or (sys.argv[3] if len(sys.argv) > 3 else "quick")
            seed = int(os.environ.get("VERIF_SEED", "1") or "1")
            return check(prop, tier, seed)
    except Inconclusive as e:
        print("INCONCLUSIVE reason=%s" % str(e)[-3000:])
        return 2
    print(__doc__)
    return 2


if __name__ == "__main__":
    sys.exit(main())
