/* LD_PRELOAD interposer: logs the name of every environment variable the process asks for
 * (getenv / secure_getenv) to the file named by VP_ENVPROBE_LOG. Used by the C19 monitors to learn
 * whether the codec consults the environment while it works. */
#define _GNU_SOURCE
#include <dlfcn.h>
#include <fcntl.h>
#include <string.h>
#include <unistd.h>

static char *(*real_getenv)(const char *);
static char *(*real_secure_getenv)(const char *);
static int log_fd = -2;
static int busy;

static void note(const char *name) {
    if (busy) return;
    busy = 1;
    if (!real_getenv) real_getenv = dlsym(RTLD_NEXT, "getenv");
    if (log_fd == -2) {
        const char *p = real_getenv ? real_getenv("VP_ENVPROBE_LOG") : 0;
        log_fd = p ? open(p, O_WRONLY | O_CREAT | O_APPEND, 0644) : -1;
    }
    if (log_fd >= 0 && name) {
        char buf[300];
        size_t n = strlen(name);
        if (n > 290) n = 290;
        memcpy(buf, name, n);
        buf[n] = '\n';
        (void)!write(log_fd, buf, n + 1);
    }
    busy = 0;
}

char *getenv(const char *name) {
    if (!real_getenv) real_getenv = dlsym(RTLD_NEXT, "getenv");
    note(name);
    return real_getenv ? real_getenv(name) : 0;
}

char *secure_getenv(const char *name) {
    if (!real_secure_getenv) real_secure_getenv = dlsym(RTLD_NEXT, "secure_getenv");
    note(name);
    return real_secure_getenv ? real_secure_getenv(name) : 0;
}
