//! Checks of the trusted base itself (reference specification, generators). A failure here makes
//! every verdict inconclusive; it is never reported as a violation of a property.

use crate::gen::{val, wire, Rng};
use crate::spec::model::*;
use crate::spec::{decode, encode, hide, md5};

pub fn run() -> Result<String, String> {
    let n_md5 = md5::self_check()?;

    // UTF-8 validator agrees with the standard library on random and crafted octets
    let mut r = Rng::new(0x5e1f);
    let mut n_utf8 = 0;
    for i in 0..200_000u32 {
        let len = r.range(0, 6) as usize;
        let mut b = r.bytes(len);
        if i % 3 == 0 {
            for x in b.iter_mut() {
                *x = *r.pick(&[0x00u8, 0x7f, 0x80, 0xbf, 0xc0, 0xc1, 0xc2, 0xdf, 0xe0, 0xed, 0xef, 0xf0, 0xf4, 0xf5, 0xff, 0x9f, 0xa0, 0x8f, 0x90]);
            }
        }
        if decode::utf8_ok(&b) != std::str::from_utf8(&b).is_ok() {
            return Err(format!("utf8 validator disagrees with std on {:02x?}", b));
        }
        n_utf8 += 1;
    }

    // reference decoder inverts reference encoder on generated values
    let mut n_rt = 0;
    for i in 0..20_000u64 {
        let mut r = Rng::for_case(7, 0, 1, i);
        let a = val::any_avp(&mut r, 1017);
        let enc = encode::avp(&a).ok_or("reference encoder refused an in-domain AVP")?;
        let mut care = decode::Care::new(enc.len());
        let got = decode::decode_avps(&enc, 0, &mut care);
        if got != vec![Ok(a.clone())] {
            return Err(format!("reference round trip failed for {:?}: {:?}", a, got));
        }
        let c = val::control(&mut r, 8, 80);
        let enc = encode::message(&SMsg::Control(c.clone())).ok_or("reference encoder refused a control message")?;
        let d = decode::decode(&enc, SOpts::STRICT);
        if d.result != Ok(SMsg::Control(c.clone())) || d.consumed != enc.len() {
            return Err(format!("reference control round trip failed for {:?}", c));
        }
        let dm = val::data(&mut r, None, 64);
        let enc = encode::message(&SMsg::Data(dm.clone())).unwrap();
        let d = decode::decode(&enc, SOpts::STRICT);
        let n = dm.offset.unwrap_or(0) as usize;
        let mut want = dm.clone();
        want.offset = None;
        want.data = dm.data[n..].to_vec();
        if d.result != Ok(SMsg::Data(want)) {
            return Err(format!("reference data round trip failed for {:?}: {:?}", dm, d.result));
        }
        n_rt += 3;
    }

    // reference hide/reveal invert each other
    let mut n_hide = 0;
    for i in 0..5_000u64 {
        let mut r = Rng::for_case(7, 0, 2, i);
        let a = val::avp_kind(&mut r, (i % 39) as usize, 200);
        let p = encode::payload(&a);
        let s = val::secret(&mut r);
        let rv = r.bytes(4);
        let lp = { let n = r.range(0, 40) as usize; r.bytes(n) };
        let apv = r.bytes(16);
        let mut ap = [0u8; 16];
        ap.copy_from_slice(&apv);
        let h = hide::hide(a.attr, &p, &s, &rv, &lp, &ap);
        if h.len() % 16 != 0 || h.len() != 16 * ((2 + p.len() + lp.len() + 15) / 16) {
            return Err("reference hide produced a wrong size".into());
        }
        match hide::reveal(a.attr, &h, &s, &rv) {
            Ok(b) if b == a => {}
            other => return Err(format!("reference reveal(hide(a)) != a: {:?} vs {:?}", other, a)),
        }
        n_hide += 1;
    }

    // the corpus covers all kinds
    let mut r = Rng::new(3);
    let c = wire::corpus(&mut r);
    if c.len() != 57 {
        return Err(format!("corpus has {} entries, expected 57", c.len()));
    }

    // maintainers' own test vectors (extracted by setup into vectors.txt) are accepted
    let mut n_vec = 0;
    let path = concat!(env!("CARGO_MANIFEST_DIR"), "/vectors.txt");
    if let Ok(text) = std::fs::read_to_string(path) {
        for line in text.lines() {
            let mut p = line.split_whitespace();
            let (name, hx) = match (p.next(), p.next()) {
                (Some(n), Some(h)) => (n, h),
                _ => continue,
            };
            let b = crate::report::unhex(hx);
            let d = decode::decode(&b, SOpts::STRICT);
            match d.result {
                Ok(SMsg::Control(_)) => n_vec += 1,
                other => return Err(format!("reference rejects the maintainers' vector {}: {:?}", name, other)),
            }
        }
    }

    Ok(format!("md5_vectors={} utf8_cases={} roundtrips={} hide_roundtrips={} maintainer_vectors={}", n_md5, n_utf8, n_rt, n_hide, n_vec))
}
