//! Worker: runs one shard of one property's workload and writes a JSON report.
//!
//!   vp-worker --prop C05 --tier quick --seed 1 --shard 3/16 --build dbg --out FILE
//!             [--journal FILE] [--time-cap SECS] [--only STREAM:IDX] [--selfcheck]
//!
//! Reports only through files: nothing is printed on stdout/stderr (the C19 monitors rely on
//! that), except in `--only` replay mode and on usage errors.

use std::io::Write;
use std::os::unix::fs::FileExt;
use std::time::Instant;
use vp_harness::gen::Rng;
use vp_harness::monitor;
use vp_harness::props::{self, Ctx, Tier};
use vp_harness::report::{Report, J};

#[global_allocator]
static ALLOC: monitor::alloc::CountingAlloc = monitor::alloc::CountingAlloc;

fn arg(args: &[String], name: &str) -> Option<String> {
    args.iter().position(|a| a == name).and_then(|i| args.get(i + 1).cloned())
}

fn main() {
    let args: Vec<String> = std::env::args().collect();
    if args.iter().any(|a| a == "--selfcheck") {
        match vp_harness::selfcheck::run() {
            Ok(s) => {
                println!("SELFCHECK OK {}", s);
                std::process::exit(0);
            }
            Err(e) => {
                println!("SELFCHECK FAILED {}", e);
                std::process::exit(2);
            }
        }
    }
    if let Some(id) = arg(&args, "--meta") {
        let tier = Tier::parse(&arg(&args, "--tier").unwrap_or("quick".into())).expect("tier");
        let p = props::find(&id).expect("unknown property");
        let j = J::obj(vec![
            ("id", J::s(p.id)),
            ("rule", J::s(p.rule)),
            ("floors", J::A((p.floors)(tier).into_iter().map(|(n, m)| J::A(vec![J::s(n), J::U(m)])).collect())),
            ("streams", J::A((p.streams)(tier).into_iter().map(|s| J::obj(vec![("name", J::s(s.name)), ("count", J::U(s.count)), ("exhaustive", J::B(s.exhaustive))])).collect())),
        ]);
        println!("{}", j.to_string());
        return;
    }
    if let Some(dir) = arg(&args, "--dump-corpus") {
        // seed corpus for the coverage-guided workload: the G-wire corpus, valid messages and
        // hostile mutations, one file each
        let seed: u64 = arg(&args, "--seed").map(|s| s.parse().expect("seed")).unwrap_or(1);
        let mut r = Rng::new(seed ^ 0xc0ffee);
        let mut n = 0;
        let mut put = |b: &[u8]| {
            let _ = std::fs::write(format!("{}/seed-{:05}", dir, n), b);
            n += 1;
        };
        for w in vp_harness::gen::wire::corpus(&mut r) {
            put(&w.bytes);
        }
        for _ in 0..300 {
            let w = vp_harness::gen::wire::valid_message(&mut r);
            if w.bytes.len() <= 512 {
                put(&w.bytes);
            }
        }
        for _ in 0..300 {
            let (b, _) = vp_harness::gen::wire::hostile(&mut r);
            if b.len() <= 512 {
                put(&b);
            }
        }
        println!("{}", n);
        return;
    }
    let prop_id = arg(&args, "--prop").expect("--prop");
    let tier = Tier::parse(&arg(&args, "--tier").unwrap_or("quick".into())).expect("tier");
    let seed: u64 = arg(&args, "--seed").map(|s| s.parse().expect("seed")).unwrap_or(1);
    let shard = arg(&args, "--shard").unwrap_or("0/1".into());
    let (si, sn) = {
        let mut p = shard.split('/');
        (p.next().unwrap().parse::<u64>().unwrap(), p.next().unwrap().parse::<u64>().unwrap())
    };
    let build = arg(&args, "--build").unwrap_or("unknown".into());
    let out_path = arg(&args, "--out");
    let journal_path = arg(&args, "--journal");
    let time_cap: f64 = arg(&args, "--time-cap").map(|s| s.parse().unwrap()).unwrap_or(1e9);
    let only = arg(&args, "--only");
    let scale: f64 = arg(&args, "--scale").map(|s| s.parse().unwrap()).unwrap_or(1.0);
    if matches!(build.as_str(), "dbg" | "rel" | "odd") {
        vp_harness::exec::threadenv::MEASURE.store(true, std::sync::atomic::Ordering::Relaxed);
    }

    let prop = props::find(&prop_id).expect("unknown property");
    if tier == Tier::Miri {
        vp_harness::gen::SMALL_SIZES.store(true, std::sync::atomic::Ordering::Relaxed);
    }
    monitor::panic::install_silent_hook();

    let journal = journal_path.map(|p| std::fs::OpenOptions::new().create(true).write(true).truncate(true).open(p).expect("journal"));
    let exact_cap = if tier == Tier::Thorough { 1 << 16 } else { 1 << 18 };
    let mut rep = Report::new(prop.id, exact_cap);
    let streams = (prop.streams)(tier);
    let start = Instant::now();
    let mut per_stream: Vec<(String, u64, u64, bool)> = Vec::new();

    if let Some(only) = only {
        // replay one case, verbosely
        let mut p = only.split(':');
        let sname = p.next().unwrap().to_string();
        let idx: u64 = p.next().unwrap().parse().unwrap();
        let (sno, sd) = streams.iter().enumerate().find(|(_, s)| s.name == sname).expect("unknown stream");
        let mut ctx = Ctx {
            seed,
            tier,
            build: build.clone(),
            rep: &mut rep,
            stream: sd.name,
            stream_no: sno,
            idx,
            rng: Rng::for_case(seed, prop.num, sno as u32, idx),
            prop_num: prop.num,
            corpus: None,
            describe: true,
        };
        {
            // the same fault provocation the case gets inside a shard
            let mut pr = Rng::for_case(seed ^ 0xfa17, prop.num, sno as u32, idx);
            if pr.chance(1, 16) {
                vp_harness::exec::provoke_failures(&mut pr);
            }
        }
        let fail_nth: i64 = arg(&args, "--fail-alloc").map(|s| s.parse().unwrap()).unwrap_or(-1);
        if fail_nth > 0 {
            monitor::alloc::arm_failure(fail_nth);
        }
        (prop.run)(&mut ctx);
        if fail_nth > 0 {
            let fired = monitor::alloc::failure_fired();
            monitor::alloc::arm_failure(-1);
            println!("ALLOCFAIL nth={} fired={}", fail_nth, fired);
        }
        let j = rep.to_json(vec![]);
        println!("{}", j.to_string());
        if rep.violation_count > 0 {
            for v in rep.violations.iter() {
                println!("REPLAY-VIOLATION property={} signature={} detail={}", prop.id, v.signature, v.detail);
            }
            std::process::exit(1);
        }
        println!("REPLAY-HELD property={} stream={} idx={}", prop.id, sname, idx);
        std::process::exit(0);
    }

    let trace = std::env::var("VP_TRACE").is_ok();
    let mut corpus_cache = None;
    // the interpreter tier samples each stream's full (quick-tier) index space pseudo-randomly
    // instead of walking its first few indices
    let full_streams = (prop.streams)(Tier::Quick);
    for (sno, sd) in streams.iter().enumerate() {
        let count = if sd.exhaustive { sd.count } else { ((sd.count as f64) * scale) as u64 };
        let mut done = 0u64;
        let mut cut = false;
        let mut idx = si;
        while idx < count {
            if !sd.exhaustive && (done & 0xff) == 0 && start.elapsed().as_secs_f64() > time_cap {
                cut = true;
                rep.truncated = true;
                break;
            }
            let eff = if tier == Tier::Miri && full_streams[sno].count > count {
                monitor::hll::mix64(seed ^ (idx.wrapping_mul(0x9e3779b97f4a7c15)) ^ ((sno as u64) << 56)) % full_streams[sno].count
            } else {
                idx
            };
            if let Some(j) = &journal {
                let line = format!("{:<24}{:>20}\n", sd.name, eff);
                let _ = j.write_at(line.as_bytes(), 0);
            }
            let mut ctx = Ctx {
                seed,
                tier,
                build: build.clone(),
                rep: &mut rep,
                stream: sd.name,
                stream_no: sno,
                idx: eff,
                rng: Rng::for_case(seed, prop.num, sno as u32, eff),
                prop_num: prop.num,
                corpus: corpus_cache.take(),
                describe: false,
            };
            // fault provocation before some cases (a pure function of the case, like the case itself)
            {
                let mut pr = Rng::for_case(seed ^ 0xfa17, prop.num, sno as u32, eff);
                if pr.chance(1, 16) {
                    let t_p = Instant::now();
                    vp_harness::exec::provoke_failures(&mut pr);
                    ctx.rep.bucket("provoked_failures_before_case");
                    if trace {
                        eprintln!("VP_TRACE provoke-before {} {} {:.3}s", sd.name, eff, t_p.elapsed().as_secs_f64());
                    }
                }
            }
            let t_case = Instant::now();
            (prop.run)(&mut ctx);
            if trace {
                eprintln!("VP_TRACE {} {} {:.3}s", sd.name, eff, t_case.elapsed().as_secs_f64());
            }
            corpus_cache = ctx.corpus.take();
            done += 1;
            idx += sn;
        }
        per_stream.push((sd.name.to_string(), count, done, cut));
    }
    if let Some(j) = &journal {
        let line = format!("{:<24}{:>20}\n", "<done>", 0);
        let _ = j.write_at(line.as_bytes(), 0);
    }

    let extra = vec![
        ("build", J::s(build)),
        ("tier", J::s(format!("{:?}", tier).to_lowercase())),
        ("seed", J::U(seed)),
        ("shard", J::s(shard)),
        ("wall_s", J::S(format!("{:.3}", start.elapsed().as_secs_f64()))),
        (
            "streams",
            J::A(
                per_stream
                    .iter()
                    .map(|(n, c, d, cut)| J::obj(vec![("name", J::s(n.clone())), ("count", J::U(*c)), ("done_in_shard", J::U(*d)), ("cut_by_time_cap", J::B(*cut))]))
                    .collect(),
            ),
        ),
    ];
    let j = rep.to_json(extra);
    match out_path {
        Some(p) => {
            let mut f = std::fs::File::create(p).expect("out");
            f.write_all(j.to_string().as_bytes()).unwrap();
        }
        None => println!("{}", j.to_string()),
    }
}
