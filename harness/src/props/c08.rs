//! C08 Decoding consumes exactly the declared length; bytes beyond it have no influence.

use super::common::*;
use super::*;
use crate::exec::{self, Out, Rk};
use crate::gen::{val, wire};
use crate::report::J;
use crate::spec::decode as sdec;
use crate::spec::encode as senc;
use crate::spec::model::*;
use rl2tp::common::{Reader, SliceReader};
use rl2tp::Message;

pub fn def() -> PropDef {
    PropDef {
        id: "C08",
        num: 8,
        streams,
        run,
        floors,
        rule: "(a) suffix independence: for inputs with a declared length (control, data with L) decode(b) vs decode(b ++ s) for random suffixes of 1..64 octets: same value, reader left with exactly |s| octets; rejected b stays rejected; (b) k <= 6 mixed control / data-with-length messages packed back to back are decoded one after another from one reader and must give the k values; (c) AVP compositionality: try_read_greedy(r1++..++rk) = concatenation of try_read_greedy(ri) for well-delimited records (good and individually undecodable), through SliceReader and contract readers (whose sub-reader windows confine each payload decoder). Distinct = distinct inputs; non-trivial = accepted base message or list of >= 2 records. Also: records with surplus payload shaped like AVP records; lists and messages beyond 64 KiB; (d) live receive queue: the message is complete when its decode starts and the octets behind its declared end arrive between reader calls (len() grows): same value, exactly the declared length consumed, packed messages still decode one after another.",
    }
}

fn streams(t: Tier) -> Vec<StreamDef> {
    vec![
        st("suffix_valid", t.n(40_000, 2_000_000, 60, 10_000), false),
        st("suffix_hostile", t.n(40_000, 2_000_000, 60, 10_000), false),
        st("sequence", t.n(10_000, 500_000, 30, 3_000), false),
        st("avp_concat", t.n(30_000, 1_500_000, 60, 8_000), false),
        st("big", t.n(320, 8000, 0, 320), false),
    ]
}

fn floors(t: Tier) -> Vec<(String, u64)> {
    if t == Tier::Miri {
        return vec![("suffix.accepted".into(), 10)];
    }
    vec![
        ("suffix.accepted".into(), 5000),
        ("suffix.accepted.data".into(), 500),
        ("suffix.accepted.control".into(), 500),
        ("suffix.rejected".into(), 2000),
        ("sequence.ok".into(), 1000),
        ("sequence.messages".into(), 3000),
        ("concat.ok".into(), 5000),
        ("concat.with_bad_record".into(), 1000),
        ("concat.with_surplus_payload".into(), 1000),
        ("suffix.virtual_4gib".into(), 500),
        ("suffix.live_queue.octets_arrived_during_decode".into(), 1000),
        ("sequence.live_queue.octets_arrived_during_decode".into(), 500),
    ]
}

/// Does the reference see a declared length whose octets are all present?
fn declared_end(b: &[u8]) -> Option<usize> {
    if b.len() < 4 {
        return None;
    }
    let w = ((b[0] as u16) << 8) | b[1] as u16;
    let control = w & crate::spec::tables::BIT_T != 0;
    let has_l = w & crate::spec::tables::BIT_L != 0;
    if !has_l {
        return None;
    }
    let l = ((b[2] as usize) << 8) | b[3] as usize;
    let min = if control { 12 } else { 6 };
    if l >= min && l <= b.len() {
        Some(l)
    } else {
        None
    }
}

fn judge_suffix(ctx: &mut Ctx, b: &[u8], tag: &str) {
    let o = SOpts::from_index(ctx.rng.below(8) as u8);
    let end = declared_end(b);
    let base = exec::decode_msg(b, Some(o), Rk::Slice);
    let accepted = base.out.is_ok();
    ctx.rep.case(b, accepted);
    if base.out.abnormal() {
        ctx.rep.bucket("base.abnormal");
        return;
    }
    // (1) position after an accepted message with a declared length
    if let (Out::Ok(m), Some(end)) = (&base.out, end) {
        let has_len = match m {
            SMsg::Control(_) => true,
            SMsg::Data(d) => d.length.is_some(),
        };
        if has_len {
            ctx.rep.bucket("suffix.accepted");
            match m {
                SMsg::Control(_) => ctx.rep.bucket("suffix.accepted.control"),
                SMsg::Data(_) => ctx.rep.bucket("suffix.accepted.data"),
            }
            if base.remaining != b.len() - end {
                ctx.violate(
                    format!("C08:position:{}", if matches!(m, SMsg::Control(_)) { "control" } else { "data" }),
                    format!("declared length {} of {} octets, but the reader is left with {} octets instead of {}", end, b.len(), base.remaining, b.len() - end),
                    w_input(b, Some(o)),
                );
            }
        }
    }
    // (1b) the same input at the front of a buffer that continues for more than 4 GiB (virtual
    // zero octets): same value, and exactly the declared length consumed
    if let (Out::Ok(m), Some(end)) = (&base.out, end) {
        let has_len = match m {
            SMsg::Control(_) => true,
            SMsg::Data(d) => d.length.is_some(),
        };
        if has_len && ctx.rng.chance(1, 8) {
            let k = ctx.rng.below(16) as usize;
            let tail = *ctx.rng.pick(&[(0x1_0000_0000usize + 12 + k).saturating_sub(b.len()), (0x2_0000_0000usize + 12 + k).saturating_sub(b.len()), 0x1_0000_0000, 0x1_0000_000f, 1 << 40]);
            let run = exec::decode_msg(b, Some(o), Rk::VirtualTail(tail));
            ctx.rep.bucket("suffix.virtual_4gib");
            match &run.out {
                Out::Ok(y) if y == m && run.remaining == b.len() - end + tail => {}
                other => ctx.violate(
                    format!("C08:huge-suffix:{}", other.class()),
                    format!("with {} more (zero) octets behind the input the result is {} with {} octets left; without them {:?} with {} left", tail, out_str(other), run.remaining, m, base.remaining),
                    J::obj(vec![("input_hex", J::hex(b)), ("virtual_zero_octets_appended", J::U(tail as u64)), ("options", J::s(opts_str(Some(o))))]),
                ),
            }
        }
    }
    // (2) suffix independence, when the declared length is wholly present
    let end = match end {
        Some(e) if e == b.len() => e,
        _ => return,
    };
    for _ in 0..2 {
        let s = ctx.rng.bytes_range(1, 64);
        let mut b2 = b.to_vec();
        b2.extend_from_slice(&s);
        let run = exec::decode_msg(&b2, Some(o), Rk::Slice);
        match (&base.out, &run.out) {
            (Out::Ok(x), Out::Ok(y)) => {
                if x != y {
                    ctx.violate(
                        format!("C08:suffix-changes-value:{}", super::c05::msg_diff_class(x, y)),
                        format!("appending {} octets after the declared end changed the decoded value: {:?} vs {:?}", s.len(), x, y),
                        J::obj(vec![("input_hex", J::hex(b)), ("suffix_hex", J::hex(&s)), ("options", J::s(opts_str(Some(o))))]),
                    );
                } else if run.remaining != s.len() {
                    ctx.violate(
                        "C08:suffix-consumed",
                        format!("declared end {}, {} suffix octets appended, reader left with {}", end, s.len(), run.remaining),
                        J::obj(vec![("input_hex", J::hex(b)), ("suffix_hex", J::hex(&s)), ("options", J::s(opts_str(Some(o))))]),
                    );
                }
            }
            (Out::Err(_), Out::Err(_)) => {
                ctx.rep.bucket("suffix.rejected");
            }
            (x, y) => {
                ctx.violate(
                    format!("C08:suffix-changes-verdict:{}-to-{}", x.class(), y.class()),
                    format!("appending {} octets after the declared end changed the verdict: {} vs {}", s.len(), out_str(x), out_str(y)),
                    J::obj(vec![("input_hex", J::hex(b)), ("suffix_hex", J::hex(&s)), ("options", J::s(opts_str(Some(o))))]),
                );
            }
        }
    }
    // (3) the same suffix arriving on a live receive queue while the message is being decoded:
    // the message is complete when decoding starts, octets behind its declared end arrive before
    // later reader calls (so `len()` grows between calls)
    if let Out::Ok(x) = &base.out {
        let s = ctx.rng.bytes_range(1, 40);
        let mut b2 = b.to_vec();
        b2.extend_from_slice(&s);
        let start_call = ctx.rng.below(10);
        let per_call = *ctx.rng.pick(&[1usize, 1, 2, 3, 5, 8, 40]);
        let (e, arrivals) = live_decode(&b2, &[end], Some(o), start_call, per_call);
        ctx.rep.bucket("suffix.live_queue");
        if arrivals > 0 {
            ctx.rep.bucket("suffix.live_queue.octets_arrived_during_decode");
        }
        match e {
            Ok(got) => {
                let (m, rem) = &got[0];
                match m {
                    Ok(y) if y == x && *rem == s.len() => {}
                    other => ctx.violate(
                        format!("C08:live-queue:{}", match other { Ok(y) if y != x => "value", Ok(_) => "position", Err(_) => "rejected" }),
                        format!("{} octets behind the declared end arrived {} at a time from reader call {} on: got {:?} with {} octets of the stream left; from a fixed buffer {:?} with {} left", s.len(), per_call, start_call, other, rem, x, s.len()),
                        J::obj(vec![("input_hex", J::hex(b)), ("suffix_hex", J::hex(&s)), ("options", J::s(opts_str(Some(o)))), ("arrival_from_call", J::U(start_call)), ("octets_per_call", J::U(per_call as u64))]),
                    ),
                }
            }
            Err(p) => ctx.violate(
                format!("C08:live-queue:panic:{}", p.class()),
                format!("decoding from a live queue panicked: {}", p.message),
                J::obj(vec![("input_hex", J::hex(b)), ("suffix_hex", J::hex(&s)), ("options", J::s(opts_str(Some(o)))), ("arrival_from_call", J::U(start_call)), ("octets_per_call", J::U(per_call as u64))]),
            ),
        }
    }
    ctx.rep.bucket(&format!("gen.{}", tag));
}

/// Decode the messages ending at `bounds` one after another from a live queue; each message is
/// complete before its own decode starts. Returns per message (value, octets of the whole stream
/// behind the reader) and the number of calls before which octets arrived.
fn live_decode(stream: &[u8], bounds: &[usize], o: Option<SOpts>, start_call: u64, per_call: usize) -> (Result<Vec<(Result<SMsg, Vec<rl2tp::common::DecodeError>>, usize)>, crate::monitor::panic::PanicInfo>, u64) {
    use crate::monitor::reader::LiveQueueReader;
    let arrivals = std::cell::Cell::new(0u64);
    let res = crate::monitor::panic::catch(|| {
        let mut r = LiveQueueReader::new(stream, 0, start_call, per_call);
        let mut got = Vec::new();
        for b in bounds {
            r.deliver_upto(*b);
            let m = match o {
                Some(o) => Message::<Vec<u8>>::try_read_validate(&mut r, crate::glue::opts(o)),
                None => Message::<Vec<u8>>::try_read(&mut r),
            }
            .map(|m| crate::glue::msg_to_spec(&m));
            got.push((m, r.total_remaining()));
            arrivals.set(r.arrivals());
        }
        got
    });
    match res {
        crate::monitor::panic::Ended::Returned(g) => (Ok(g), arrivals.get()),
        crate::monitor::panic::Ended::Panicked(p) => (Err(p), arrivals.get()),
        _ => unreachable!(),
    }
}

/// k messages back to back, decoded from one SliceReader.
fn judge_sequence(ctx: &mut Ctx) {
    let k = ctx.rng.range(2, 6) as usize;
    let mut msgs: Vec<SMsg> = Vec::new();
    let mut stream = Vec::new();
    let mut bounds = Vec::new();
    for _ in 0..k {
        let m = if ctx.rng.bool() {
            SMsg::Control(val::control(&mut ctx.rng, 5, 40))
        } else {
            // data with a length field (shape bit 0 set); offset excluded so the value is stable
            let shape = 1 | ((ctx.rng.below(2) as u8) << 1) | ((ctx.rng.below(2) as u8) << 3);
            SMsg::Data(val::data(&mut ctx.rng, Some(shape), 40))
        };
        let enc = senc::message(&m).unwrap();
        stream.extend_from_slice(&enc);
        bounds.push(stream.len());
        msgs.push(m);
    }
    ctx.rep.case(&stream, true);
    let boxed: Box<[u8]> = stream.clone().into();
    let res = crate::monitor::panic::catch(|| {
        let mut r = SliceReader::from(&boxed);
        let mut got = Vec::new();
        for _ in 0..k {
            let m = Message::<&[u8]>::try_read(&mut r).map(|m| crate::glue::msg_to_spec(&m));
            got.push((m, r.len()));
        }
        got
    });
    let got = match res {
        crate::monitor::panic::Ended::Returned(g) => g,
        crate::monitor::panic::Ended::Panicked(p) => {
            ctx.violate(format!("C08:sequence:panic:{}", p.class()), format!("decoding {} packed messages panicked: {}", k, p.message), J::obj(vec![("stream_hex", J::hex(&stream))]));
            return;
        }
        _ => unreachable!(),
    };
    for (i, (m, rem)) in got.iter().enumerate() {
        ctx.rep.bucket("sequence.messages");
        let want_rem = stream.len() - bounds[i];
        match m {
            Ok(v) if *v == msgs[i] && *rem == want_rem => {}
            other => {
                ctx.violate(
                    format!("C08:sequence:{}", match other { Ok(_) if *rem != want_rem => "position", Ok(_) => "value", Err(_) => "rejected" }),
                    format!("message {} of {}: got {:?} with {} octets left, expected {:?} with {} left", i + 1, k, other, rem, msgs[i], want_rem),
                    J::obj(vec![("stream_hex", J::hex(&stream)), ("boundaries", J::A(bounds.iter().map(|b| J::U(*b as u64)).collect()))]),
                );
                return;
            }
        }
    }
    // the same stream from a live receive queue: each message complete before its decode starts,
    // the following ones arriving meanwhile
    {
        let start_call = ctx.rng.below(8);
        let per_call = *ctx.rng.pick(&[1usize, 2, 3, 7, 20]);
        let (e, arrivals) = live_decode(&stream, &bounds, None, start_call, per_call);
        ctx.rep.bucket("sequence.live_queue");
        if arrivals > 0 {
            ctx.rep.bucket("sequence.live_queue.octets_arrived_during_decode");
        }
        let wit = || J::obj(vec![("stream_hex", J::hex(&stream)), ("boundaries", J::A(bounds.iter().map(|b| J::U(*b as u64)).collect())), ("arrival_from_call", J::U(start_call)), ("octets_per_call", J::U(per_call as u64))]);
        match e {
            Ok(got) => {
                for (i, (m, rem)) in got.iter().enumerate() {
                    let want_rem = stream.len() - bounds[i];
                    match m {
                        Ok(v) if *v == msgs[i] && *rem == want_rem => {}
                        other => {
                            ctx.violate(
                                format!("C08:live-queue:sequence:{}", match other { Ok(_) if *rem != want_rem => "position", Ok(_) => "value", Err(_) => "rejected" }),
                                format!("message {} of {} from a live queue ({} octets per call from call {}): got {:?} with {} octets of the stream left, expected {:?} with {} left", i + 1, k, per_call, start_call, other, rem, msgs[i], want_rem),
                                wit(),
                            );
                            return;
                        }
                    }
                }
            }
            Err(p) => {
                ctx.violate(format!("C08:live-queue:sequence:panic:{}", p.class()), format!("decoding {} packed messages from a live queue panicked: {}", k, p.message), wit());
                return;
            }
        }
    }
    ctx.rep.bucket("sequence.ok");
    ctx.rep.sample(|| J::obj(vec![("packed_messages", J::U(k as u64)), ("stream_hex", J::hex(&stream[..stream.len().min(96)]))]));
}

/// Well-delimited records: good ones and individually undecodable ones (usable length field).
fn record(ctx: &mut Ctx) -> (Vec<u8>, bool) {
    let sel = ctx.rng.below(10);
    if sel == 5 {
        ctx.rep.bucket("concat.with_surplus_payload");
    }
    let r = &mut ctx.rng;
    match sel {
        0 => (wire::raw_record(r.range(0, 39) as u16, false, r.range(1, 9) as u16, &r.bytes_range(0, 12), true), true), // vendor
        1 => (wire::raw_record(*r.pick(&[20u16, 40, 41, 500, 65535]), false, 0, &r.bytes_range(0, 12), true), true), // unknown
        2 => {
            // truncated payload of a fixed-size kind
            let attr = *r.pick(&[0u16, 2, 3, 5, 9, 13, 34, 35, 36]);
            let min = crate::spec::tables::min_len(crate::spec::tables::format_of(attr).unwrap());
            let n = r.below(min as u64) as usize;
            (wire::raw_record(attr, false, 0, &r.bytes(n), true), true)
        }
        3 => (wire::raw_record(*r.pick(&[8u16, 21, 22, 23]), false, 0, &[0x61, 0xff, 0x62], true), true), // bad utf-8
        4 => {
            let a = val::hidden_avp(r, 40);
            (senc::avp(&a).unwrap(), false)
        }
        5 => {
            // non-canonical but decodable: a kind with a fixed-size (or empty) value carrying
            // surplus payload octets, which its decoder must skip; the surplus is itself shaped
            // like AVP records so that a decoder which fails to skip it would parse it
            let attr = *r.pick(&[39u16, 39, 0, 2, 3, 5, 6, 9, 13, 25, 32, 34, 35, 36, 38]);
            let min = crate::spec::tables::min_len(crate::spec::tables::format_of(attr).unwrap());
            let mut p = wire::valid_payload(r, attr, min);
            if r.bool() {
                p.extend_from_slice(&senc::avp(&val::any_avp(r, 12)).unwrap());
            } else {
                let extra = r.bytes_range(1, 12);
                p.extend_from_slice(&extra);
            }
            (wire::raw_record(attr, false, 0, &p, r.bool()), false)
        }
        _ => {
            let a = val::any_avp(r, 40);
            (senc::avp(&a).unwrap(), false)
        }
    }
}

fn judge_concat(ctx: &mut Ctx) {
    let k = ctx.rng.range(2, 7) as usize;
    let mut recs = Vec::new();
    let mut any_bad = false;
    for _ in 0..k {
        let (r, bad) = record(ctx);
        any_bad |= bad;
        recs.push(r);
    }
    let all: Vec<u8> = recs.iter().flatten().cloned().collect();
    ctx.rep.case(&all, true);
    for rk in [Rk::Slice, Rk::ContractSlice, Rk::Segmented(4)] {
        let whole = exec::decode_avps(&all, rk);
        let whole_list = match whole.out {
            Out::Ok(l) => l,
            other => {
                ctx.violate(format!("C08:concat:{}", other.class()), format!("decoding concatenated records ended with {}", out_str(&other)), w_input(&all, None));
                return;
            }
        };
        if let Some(l) = &whole.log {
            if let Some(br) = l.borrow().breaches.first() {
                ctx.violate("C08:concat:window-breach", format!("a payload decoder asked for {} octets with {} left in its own window (offset {})", br.requested, br.remaining, br.at), w_input(&all, None));
            }
        }
        let mut parts = Vec::new();
        for r in recs.iter() {
            match exec::decode_avps(r, rk).out {
                Out::Ok(l) => parts.extend(l),
                _ => return,
            }
        }
        if whole_list != parts {
            ctx.violate(
                "C08:concat:not-compositional",
                format!("decode_avps(r1++..++r{}) = {:?} but the concatenation of the single decodes is {:?}", k, whole_list, parts),
                J::obj(vec![("records_hex", J::A(recs.iter().map(|r| J::hex(r)).collect()))]),
            );
            return;
        }
    }
    ctx.rep.bucket("concat.ok");
    if any_bad {
        ctx.rep.bucket("concat.with_bad_record");
    }
}

fn run(ctx: &mut Ctx) {
    match ctx.stream {
        "suffix_valid" => {
            let w = if ctx.rng.bool() {
                wire::wire_control(&val::control(&mut ctx.rng, 6, 60))
            } else {
                let shape = 1 | ((ctx.rng.below(8) as u8) << 1);
                wire::wire_data(&val::data(&mut ctx.rng, Some(shape), 48))
            };
            // spec sanity: the reference consumes exactly the declared length
            let d = sdec::decode(&w.bytes, SOpts::NONE);
            if d.result.is_ok() && d.consumed != w.bytes.len() {
                ctx.rep.bucket("selfcheck.reference_consumed_mismatch");
            }
            judge_suffix(ctx, &w.bytes, "valid");
        }
        "suffix_hostile" => {
            let (b, _) = wire::hostile(&mut ctx.rng);
            judge_suffix(ctx, &b, "hostile");
        }
        "big" => match wire::big_input(&mut ctx.rng) {
            (wire::Big::Msg(b), _) => judge_suffix(ctx, &b, "big"),
            (wire::Big::Avps(b), _) => {
                // compositionality on a long list: the whole list versus its halves split at a
                // record boundary found by the independent walker
                ctx.rep.case(&b[b.len().saturating_sub(64)..], true);
                let mut at = 0usize;
                let mut cut = 0usize;
                while at + 6 <= b.len() {
                    let len = (((b[at] >> 6) as usize) << 8) | b[at + 1] as usize;
                    if len < 6 || at + len > b.len() {
                        break;
                    }
                    at += len;
                    if cut == 0 && at >= b.len() / 2 {
                        cut = at;
                    }
                }
                if cut == 0 {
                    return;
                }
                for rk in [Rk::Slice, Rk::ContractSlice] {
                    let whole = exec::decode_avps(&b, rk);
                    let (l, r) = (exec::decode_avps(&b[..cut], rk), exec::decode_avps(&b[cut..], rk));
                    match (whole.out, l.out, r.out) {
                        (Out::Ok(w), Out::Ok(mut x), Out::Ok(y)) => {
                            x.extend(y);
                            if w != x {
                                ctx.violate("C08:concat:not-compositional:long-list", format!("a {}-octet AVP list decodes to {} results, its two halves (cut at record boundary {}) to {} results", b.len(), w.len(), cut, x.len()), J::obj(vec![("len", J::U(b.len() as u64)), ("cut", J::U(cut as u64)), ("tail_hex", J::hex(&b[b.len().saturating_sub(48)..]))]));
                            } else {
                                ctx.rep.bucket("concat.long_list.ok");
                            }
                        }
                        (w, _, _) if w.abnormal() => ctx.violate(format!("C08:concat:{}", w.class()), format!("decoding a {}-octet AVP list ended with {}", b.len(), out_str(&w)), J::obj(vec![("len", J::U(b.len() as u64))])),
                        _ => {}
                    }
                }
            }
        },
        "sequence" => judge_sequence(ctx),
        "avp_concat" => judge_concat(ctx),
        _ => unreachable!(),
    }
}
