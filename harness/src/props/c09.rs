//! C09 Encoding only appends: earlier writer content untouched, position independent.

use super::common::*;
use super::*;
use crate::exec::{self, Item, Wk};
use crate::gen::val;
use crate::glue;
use crate::monitor::writer::WEvent;
use crate::report::J;
use crate::spec::model::*;
use rl2tp::avp::AVP;
use rl2tp::Message;

pub fn def() -> PropDef {
    PropDef {
        id: "C09",
        num: 9,
        streams,
        run,
        floors,
        rule: "each value (message or AVP) is encoded into an empty writer and into writers pre-filled with 1..300 random octets (VecWriter and a recording writer); result must be prefix ++ encode(v); sequences of 2..8 mixed items into one writer must equal the concatenation; every positional overwrite logged by the recording writer must start at or after the start of the value being encoded, end inside the written data, and coincide with a length field found by the independent walker on the final output. Distinct = distinct (prefix length, value); non-trivial = non-empty prefix or sequence. Also: prefixes of 64 KiB..200 KB, sequences crossing 64 KiB, a window writer whose positions start at 2^16..2^48, pre-sized and recycled VecWriters.",
    }
}

fn streams(t: Tier) -> Vec<StreamDef> {
    vec![st("prefix", t.n(40_000, 2_000_000, 80, 10_000), false), st("sequence", t.n(15_000, 800_000, 40, 4_000), false)]
}

fn floors(t: Tier) -> Vec<(String, u64)> {
    if t == Tier::Miri {
        return vec![("prefix.ok".into(), 20)];
    }
    vec![("prefix.ok".into(), 10_000), ("sequence.ok".into(), 5000), ("overwrite.events".into(), 20_000), ("overwrite.on_length_field".into(), 20_000), ("item.msg".into(), 3000), ("item.avp".into(), 3000), ("item.data".into(), 1000), ("prefix.beyond_64k".into(), 500), ("window_writer".into(), 2000), ("sequence.beyond_64k".into(), 20)]
}

enum Val {
    Msg(Message<Vec<u8>>),
    Avp(AVP),
}

fn gen_val(ctx: &mut Ctx) -> Val {
    match ctx.rng.below(5) {
        0 | 1 => {
            ctx.rep.bucket("item.msg");
            Val::Msg(glue::msg_to_crate(&SMsg::Control(val::control(&mut ctx.rng, 6, 60))).unwrap())
        }
        2 => {
            ctx.rep.bucket("item.data");
            Val::Msg(glue::msg_to_crate(&SMsg::Data(val::data(&mut ctx.rng, None, 40))).unwrap())
        }
        _ => {
            ctx.rep.bucket("item.avp");
            let maxp = if ctx.rng.chance(1, 10) { 1017 } else { 60 };
            Val::Avp(glue::avp_to_crate(&val::any_avp(&mut ctx.rng, maxp)).unwrap())
        }
    }
}

fn item(v: &Val) -> Item<'_> {
    match v {
        Val::Msg(m) => Item::Msg(m),
        Val::Avp(a) => Item::Avp(a),
    }
}

/// Offsets of all length fields in an encoded item sequence starting at `base`.
fn length_fields(vals: &[&Val], bytes: &[u8], base: usize) -> Option<Vec<usize>> {
    let mut out = Vec::new();
    let mut at = base;
    for v in vals {
        match v {
            Val::Avp(_) => {
                if at + 2 > bytes.len() {
                    return None;
                }
                let len = (((bytes[at] >> 6) as usize) << 8) | bytes[at + 1] as usize;
                out.push(at);
                at += len;
            }
            Val::Msg(Message::Control(_)) => {
                if at + 4 > bytes.len() {
                    return None;
                }
                let total = ((bytes[at + 2] as usize) << 8) | bytes[at + 3] as usize;
                out.push(at + 2);
                let recs = walk_avps(bytes.get(at + 12..at + total)?).ok()?;
                for (a, _) in recs {
                    out.push(at + 12 + a);
                }
                at += total;
            }
            Val::Msg(Message::Data(d)) => {
                let sz = 6 + if d.length.is_some() { 2 } else { 0 } + if d.ns_nr.is_some() { 4 } else { 0 } + if d.offset.is_some() { 2 } else { 0 } + d.data.len();
                at += sz;
            }
        }
    }
    if at == bytes.len() {
        Some(out)
    } else {
        None
    }
}

fn check_events(ctx: &mut Ctx, events: &[WEvent], vals: &[&Val], bytes: &[u8], prefix_len: usize, wit: &J) {
    check_events_at(ctx, events, vals, bytes, prefix_len, 0, wit)
}

/// `origin` = absolute writer position of `bytes[0]` (non-zero for the window writer)
fn check_events_at(ctx: &mut Ctx, events: &[WEvent], vals: &[&Val], bytes: &[u8], prefix_len: usize, origin: usize, wit: &J) {
    let fields = length_fields(vals, bytes, prefix_len);
    for e in events {
        if let WEvent::Overwrite { off, n, len_before } = e {
            ctx.rep.bucket("overwrite.events");
            if *off < origin {
                ctx.violate("C09:overwrite:before-window", format!("overwrite at absolute position {} but the value being encoded starts at {}", off, origin), wit.clone());
                continue;
            }
            let (off, len_before) = (&(*off - origin), &(*len_before - origin.min(*len_before)));
            if *off < prefix_len {
                ctx.violate("C09:overwrite:into-prefix", format!("overwrite [{}, +{}) reaches into the {} octets that were in the writer before", off, n, prefix_len), wit.clone());
            } else if off + n > *len_before {
                ctx.violate("C09:overwrite:beyond-written", format!("overwrite [{}, +{}) with only {} octets written", off, n, len_before), wit.clone());
            } else if let Some(f) = &fields {
                if *n == 2 && f.contains(off) {
                    ctx.rep.bucket("overwrite.on_length_field");
                } else {
                    ctx.violate("C09:overwrite:not-a-length-field", format!("overwrite [{}, +{}) does not coincide with any length field of the output (fields at {:?})", off, n, f), wit.clone());
                }
            }
        }
    }
}

fn run(ctx: &mut Ctx) {
    match ctx.stream {
        "prefix" => {
            let v = gen_val(ctx);
            let alone = match exec::encode_items(&[], &[item(&v)], Wk::Vec) {
                exec::EncOut::Ok(e) => e.bytes,
                exec::EncOut::Panic(_) => return,
            };
            let plen = *ctx.rng.pick(&[0usize, 1, 2, 3, 5, 12, 255, 256, 300]);
            let plen = if ctx.rng.bool() { plen } else { ctx.rng.range(0, 300) as usize };
            // now and then a writer that already holds more than 64 KiB / 16 MiB-ish offsets that
            // do not fit 16 bits (positions are usize; nothing may assume they fit a length field)
            let plen = if ctx.tier != Tier::Miri && ctx.rng.chance(1, 12) {
                ctx.rep.bucket("prefix.beyond_64k");
                *ctx.rng.pick(&[65_534usize, 65_535, 65_536, 65_537, 65_541, 70_000, 131_071, 131_072, 200_000])
            } else {
                plen
            };
            let prefix = ctx.rng.bytes(plen);
            let mut key = vec![plen as u8, (plen >> 8) as u8];
            key.extend_from_slice(&alone[..alone.len().min(256)]);
            ctx.rep.case(&key, plen > 0);
            let wit = J::obj(vec![("prefix_hex", J::hex(&prefix)), ("encode_alone_hex", J::hex(&alone[..alone.len().min(512)]))]);
            let mut want = prefix.clone();
            want.extend_from_slice(&alone);
            let presized = Wk::Presized(*ctx.rng.pick(&[4usize, 64, 1500, 66_000]));
            for wk in [Wk::Vec, Wk::Recording, presized, Wk::Reused, Wk::WhileUnwinding] {
                match exec::encode_items(&prefix, &[item(&v)], wk) {
                    exec::EncOut::Ok(e) => {
                        if e.bytes != want {
                            let class = if e.bytes.len() >= plen && e.bytes[..plen] != prefix[..] { "prefix-modified" } else if e.bytes.len() != want.len() { "size" } else { "appended-octets-differ" };
                            ctx.violate(
                                format!("C09:prefix:{}", class),
                                format!("encoding after a {}-octet prefix gave {} octets that are not prefix ++ encode(v) ({:?})", plen, e.bytes.len(), wk),
                                J::obj(vec![("prefix_hex", J::hex(&prefix)), ("encode_alone_hex", J::hex(&alone[..alone.len().min(512)])), ("got_hex", J::hex(&e.bytes[..e.bytes.len().min(900)]))]),
                            );
                        } else {
                            ctx.rep.bucket("prefix.ok");
                        }
                        check_events(ctx, &e.events, &[&v], &e.bytes, plen, &wit);
                    }
                    exec::EncOut::Panic(p) => {
                        ctx.violate(format!("C09:prefix:panic:{}", p.class()), format!("encoding into a pre-filled writer panicked although the empty writer worked: {}", p.message), wit.clone());
                    }
                }
            }
            // the same value through a writer whose positions start far from zero
            if ctx.rng.chance(1, 4) {
                let base = *ctx.rng.pick(&[1usize, 255, 65_535, 65_536, 0xffff_ffff, 0x1_0000_0000, 0x1_0000_1000, 1 << 48, usize::MAX / 2]);
                ctx.rep.bucket("window_writer");
                let w2 = J::obj(vec![("writer_base_position", J::U(base as u64)), ("encode_alone_hex", J::hex(&alone[..alone.len().min(512)]))]);
                match exec::encode_items(&[], &[item(&v)], Wk::Offset(base)) {
                    exec::EncOut::Ok(e) => {
                        if e.bytes != alone {
                            let at = e.bytes.iter().zip(alone.iter()).position(|(a, b)| a != b).unwrap_or(e.bytes.len().min(alone.len()));
                            ctx.violate("C09:position-dependent-output", format!("a writer that starts at position {} received different octets than an empty writer (first difference at offset {})", base, at), w2.clone());
                        }
                        check_events_at(ctx, &e.events, &[&v], &e.bytes, 0, base, &w2);
                    }
                    exec::EncOut::Panic(p) => ctx.violate(format!("C09:position-dependent-panic:{}", p.class()), format!("encoding into a writer that starts at position {} panicked: {}", base, p.message), w2),
                }
            }
            ctx.rep.sample(|| J::obj(vec![("prefix_octets", J::U(plen as u64)), ("value_hex", J::hex(&alone[..alone.len().min(48)]))]));
        }
        "sequence" => {
            let big = ctx.tier != Tier::Miri && ctx.rng.chance(1, 40);
            let k = if big { 12 } else { ctx.rng.range(2, 8) as usize };
            let vals: Vec<Val> = (0..k)
                .map(|i| {
                    if big && i < 10 {
                        // ten messages of about 8 KiB each: later items start beyond offset 65536
                        ctx.rep.bucket("item.msg");
                        Val::Msg(glue::msg_to_crate(&SMsg::Control(val::control_exact(&mut ctx.rng, 8000))).unwrap())
                    } else {
                        gen_val(ctx)
                    }
                })
                .collect();
            if big {
                ctx.rep.bucket("sequence.beyond_64k");
            }
            let mut want = Vec::new();
            for v in vals.iter() {
                match exec::encode_items(&[], &[item(v)], Wk::Vec) {
                    exec::EncOut::Ok(e) => want.extend_from_slice(&e.bytes),
                    exec::EncOut::Panic(_) => return,
                }
            }
            ctx.rep.case(&want[..want.len().min(512)], true);
            let items: Vec<Item> = vals.iter().map(item).collect();
            let refs: Vec<&Val> = vals.iter().collect();
            let wit = J::obj(vec![("items", J::U(k as u64)), ("concatenation_hex", J::hex(&want[..want.len().min(1024)]))]);
            for wk in [Wk::Vec, Wk::Recording] {
                match exec::encode_items(&[], &items, wk) {
                    exec::EncOut::Ok(e) => {
                        if e.bytes != want {
                            let at = e.bytes.iter().zip(want.iter()).position(|(a, b)| a != b).unwrap_or(e.bytes.len().min(want.len()));
                            ctx.violate("C09:sequence:not-concatenation", format!("{} items into one writer differ from the concatenation of their encodings at offset {}", k, at), wit.clone());
                        } else {
                            ctx.rep.bucket("sequence.ok");
                        }
                        check_events(ctx, &e.events, &refs, &e.bytes, 0, &wit);
                    }
                    exec::EncOut::Panic(p) => ctx.violate(format!("C09:sequence:panic:{}", p.class()), format!("encoding a sequence panicked: {}", p.message), wit.clone()),
                }
            }
        }
        _ => unreachable!(),
    }
}
