//! C12 Hidden values equal the RFC 2661 section 4.3 MD5 construction computed independently.

use super::common::*;
use super::c11::{feedback_case, grid_case, random_case, HideCase};
use super::*;
use crate::exec::{self, Out, Wk};
use crate::gen::val;
use crate::glue;
use crate::report::J;
use crate::spec::encode as senc;
use crate::spec::hide as shide;
use crate::spec::model::*;

pub fn def() -> PropDef {
    PropDef {
        id: "C12",
        num: 12,
        streams,
        run,
        floors,
        rule: "hide(a,s,rv,lp,ap).value is compared octet for octet with the reference construction (own MD5, RFC 1321 vectors checked first): size 16*ceil((2+|payload|+|lp|)/16), attribute type preserved, H bit and clear type on the wire, independence from the unused tail of the alignment padding and from call history; reveal(h,s,rv) is compared with the reference reveal on arbitrary hidden values incl. wrong keys (Ok value / Err-ness). Cases as C11 (block counts 1..63, all residues, secret lengths straddling MD5 padding). Distinct = distinct (value, secret, rv, lp, ap); non-trivial = every hide case; reveal cases whose value is a positive multiple of 16 octets. Also: values of 2^12..2^16 blocks (length padding up to 1 MiB) and the reference's own giant values revealed by the crate.",
    }
}

fn streams(t: Tier) -> Vec<StreamDef> {
    vec![st("grid", t.n(39 * 16 * 8, 39 * 16 * 64, 80, 39 * 16 * 2), true), st("random", t.n(30_000, 1_500_000, 60, 8_000), false), st("reveal_any", t.n(40_000, 2_000_000, 80, 10_000), false), st("giant", t.n(16, 128, 0, 16), false), st("feedback", t.n(6_000, 200_000, 30, 2_000), false)]
}

fn floors(t: Tier) -> Vec<(String, u64)> {
    if t == Tier::Miri {
        return vec![("hide.match".into(), 20)];
    }
    vec![
        ("hide.match".into(), 20_000),
        ("hide.blocks.1".into(), 100),
        ("hide.blocks.2".into(), 100),
        ("hide.blocks.3+".into(), 1000),
        ("ap_tail_independent".into(), 5000),
        ("history_independent".into(), 5000),
        ("wire.h_bit".into(), 5000),
        ("reveal.agree.ok".into(), 2000),
        ("reveal.agree.err".into(), 2000),
        ("reveal.wrong_key".into(), 1000),
        ("hide.giant".into(), 10),
    ]
}

fn hidden_value(a: &rl2tp::avp::AVP) -> Option<(u16, Vec<u8>)> {
    let s = glue::avp_to_spec(a);
    match (s.hidden, s.body) {
        (true, SBody::Bytes(v)) => Some((s.attr, v)),
        _ => None,
    }
}

pub fn judge_hide(ctx: &mut Ctx, c: &HideCase) {
    let ca = glue::avp_to_crate(&c.a).unwrap();
    let payload = senc::payload(&c.a);
    let want = shide::hide(c.a.attr, &payload, &c.secret, &c.rv, &c.lp, &c.ap);
    let plain_len = 2 + payload.len() + c.lp.len();
    let blocks = (plain_len + 15) / 16;
    ctx.rep.case(&c.key(), true);
    ctx.rep.bucket(&format!("hide.blocks.{}", if blocks >= 3 { "3+".to_string() } else { blocks.to_string() }));
    let h = match exec::hide(ca.clone(), &c.secret, c.rv, &c.lp, &c.ap) {
        Ok(h) => h,
        Err(p) => {
            ctx.violate(format!("C12:hide-panic:{}", p.class()), format!("hide panicked: {}", p.message), c.witness());
            return;
        }
    };
    let (attr, got) = match hidden_value(&h) {
        Some(x) => x,
        None => {
            ctx.violate("C12:hide-not-hidden", "hide returned a non-hidden AVP", c.witness());
            return;
        }
    };
    if attr != c.a.attr {
        ctx.violate("C12:attribute-type-changed", format!("hidden AVP carries attribute type {} instead of {}", attr, c.a.attr), c.witness());
    }
    if got.len() != 16 * blocks {
        ctx.violate("C12:hidden-size", format!("hidden value has {} octets, the construction gives {} ({} blocks)", got.len(), 16 * blocks, blocks), c.witness());
        return;
    }
    if got != want {
        let at = got.iter().zip(want.iter()).position(|(a, b)| a != b).unwrap();
        ctx.violate(
            format!("C12:hidden-octets:block{}", if at / 16 == 0 { "1".to_string() } else if at / 16 == 1 { "2".to_string() } else { "3+".to_string() }),
            format!("hidden value differs from the RFC 2661 4.3 construction at octet {} (block {} of {}): crate {} reference {}", at, at / 16 + 1, blocks, crate::report::hex(&got[..got.len().min(64)]), crate::report::hex(&want[..want.len().min(64)])),
            c.witness(),
        );
        return;
    }
    ctx.rep.bucket("hide.match");

    // wire form: H bit set, attribute type in clear, M set, vendor 0
    if let exec::EncOut::Ok(e) = exec::encode_avp(&h, Wk::Vec) {
        let ok = e.bytes.len() == 6 + got.len() && e.bytes[0] & 0x02 != 0 && e.bytes[4] == (attr >> 8) as u8 && e.bytes[5] == attr as u8 && e.bytes[6..] == got[..];
        if ok {
            ctx.rep.bucket("wire.h_bit");
        } else {
            ctx.violate("C12:wire-form", format!("wire form of the hidden AVP is wrong: {}", crate::report::hex(&e.bytes[..e.bytes.len().min(32)])), c.witness());
        }
    }

    // independence from the unused tail of the alignment padding
    let used = (16 - plain_len % 16) % 16;
    if used < 16 {
        let mut ap2 = c.ap;
        for i in used..16 {
            ap2[i] ^= 0xa5;
        }
        match exec::hide(ca.clone(), &c.secret, c.rv, &c.lp, &ap2) {
            Ok(h2) if hidden_value(&h2).map(|x| x.1) == Some(got.clone()) => ctx.rep.bucket("ap_tail_independent"),
            _ => ctx.violate("C12:depends-on-unused-padding", format!("changing alignment-padding octets {}..16 (not needed to reach a multiple of 16) changed the output", used), c.witness()),
        }
    }
    // a twin that differs in memory but not on the wire (absent text given as Some("")) must hide
    // to the same octets
    if let Some(twin) = glue::noncanonical_twin(&ca) {
        ctx.rep.bucket("hide.noncanonical_twin");
        match exec::hide(twin, &c.secret, c.rv, &c.lp, &c.ap) {
            Ok(h2) if hidden_value(&h2).map(|x| x.1) == Some(want.clone()) => {}
            Ok(h2) => ctx.violate("C12:noncanonical-twin:octets", format!("the same AVP with its absent text given as Some(\"\") hides to {:?}", hidden_value(&h2).map(|x| crate::report::hex(&x.1[..x.1.len().min(48)]))), c.witness()),
            Err(p) => ctx.violate(format!("C12:noncanonical-twin:hide-panic:{}", p.class()), format!("hide panicked for the same AVP with its absent text given as Some(\"\"): {}", p.message), c.witness()),
        }
    }
    // the same hide on a fresh thread, in its body and from thread-local destructors at teardown
    if ctx.tier != Tier::Miri && c.lp.len() <= 2000 && c.secret.len() <= 4096 && ctx.rng.chance(1, 32) {
        let direct: Out<Vec<u8>> = Out::Ok(want.clone());
        let (a, secret, rv, lp, ap) = (c.a.clone(), c.secret.clone(), c.rv, c.lp.clone(), c.ap);
        thread_env_check(
            ctx,
            "C12",
            &direct,
            move || match exec::hide(glue::avp_to_crate(&a).unwrap(), &secret, rv, &lp, &ap) {
                Ok(h) => match hidden_value(&h) {
                    Some((_, v)) => Out::Ok(v),
                    None => Out::Ok(vec![]),
                },
                Err(p) => Out::Panic(p),
            },
            c.witness(),
        );
    }
    // independence from call history: unrelated calls in between, then repeat
    {
        let other = random_case(&mut ctx.rng);
        let oc = glue::avp_to_crate(&other.a).unwrap();
        let _ = exec::hide(oc, &other.secret, other.rv, &other.lp, &other.ap).map(|h| exec::reveal(h, &c.secret, c.rv));
        match exec::hide(ca, &c.secret, c.rv, &c.lp, &c.ap) {
            Ok(h3) if hidden_value(&h3).map(|x| x.1) == Some(got.clone()) => ctx.rep.bucket("history_independent"),
            _ => ctx.violate("C12:depends-on-history", "the same hide call gave different octets after unrelated calls", c.witness()),
        }
    }
    ctx.rep.sample(|| {
        J::obj(vec![("avp", J::s(format!("{:?}", c.a))), ("secret_octets", J::U(c.secret.len() as u64)), ("length_padding_octets", J::U(c.lp.len() as u64)), ("blocks", J::U(blocks as u64)), ("hidden_hex", J::hex(&got[..got.len().min(48)]))])
    });
}

/// reveal on arbitrary hidden values (valid ones under right and wrong keys, random ones)
pub fn judge_reveal(ctx: &mut Ctx) {
    let r = &mut ctx.rng;
    let secret = val::secret(r);
    let mut rv = [0u8; 4];
    rv.copy_from_slice(&r.bytes(4));
    let mode = r.below(4);
    let (attr, value, wrong_key) = match mode {
        0 | 1 => {
            // a genuinely hidden AVP, revealed with the right or a wrong key
            let c = random_case(r);
            let v = shide::hide(c.a.attr, &senc::payload(&c.a), &secret, &rv, &c.lp, &c.ap);
            (c.a.attr, v, mode == 1)
        }
        2 => {
            let n = 16 * r.range(1, 6) as usize;
            (r.range(0, 40) as u16, r.bytes(n), false)
        }
        _ => (r.u16b(), r.bytes_range(0, 70), false),
    };
    let (s2, rv2) = if wrong_key {
        let mut s2 = secret.clone();
        s2.push(1);
        let mut rv2 = rv;
        rv2[0] ^= 1;
        if r.bool() {
            (s2, rv)
        } else {
            (secret.clone(), rv2)
        }
    } else {
        (secret.clone(), rv)
    };
    let want = shide::reveal(attr, &value, &s2, &rv2);
    let mut key = vec![mode as u8];
    key.extend_from_slice(&value);
    key.extend_from_slice(&s2);
    ctx.rep.case(&key, !value.is_empty() && value.len() % 16 == 0);
    let wit = J::obj(vec![("attribute_type", J::U(attr as u64)), ("hidden_value_hex", J::hex(&value)), ("secret_hex", J::hex(&s2)), ("random_vector_hex", J::hex(&rv2))]);
    let got = exec::reveal(exec::hidden_exact(attr, &value), &s2, rv2);
    if wrong_key {
        ctx.rep.bucket("reveal.wrong_key");
    }
    match (&want, &got) {
        (Ok(a), Out::Ok(b)) => {
            if a == b {
                ctx.rep.bucket("reveal.agree.ok");
            } else {
                ctx.violate(format!("C12:reveal-value:attr{}", attr), format!("reveal gives {:?}, the reference gives {:?}", b, a), wit);
            }
        }
        (Err(_), Out::Err(_)) => ctx.rep.bucket("reveal.agree.err"),
        (Ok(a), Out::Err(e)) => ctx.violate(format!("C12:reveal-verdict:reference-ok:crate-err:{}", super::c05::first_err_name(e)), format!("reference reveals {:?}, crate returns {}", a, errs_str(e)), wit),
        (Err(e), Out::Ok(b)) => ctx.violate(format!("C12:reveal-verdict:reference-err:{}:crate-ok", super::c05::serr_name(e)), format!("reference rejects ({:?}), crate reveals {:?}", e, b), wit),
        (_, Out::Panic(_)) | (_, Out::Budget) => {
            // totality of reveal is C13's finding
            ctx.rep.bucket("reveal.abnormal");
        }
    }
}

fn run(ctx: &mut Ctx) {
    match ctx.stream {
        "grid" => {
            let kind = (ctx.idx % 39) as usize;
            let residue = ((ctx.idx / 39) % 16) as usize;
            let sel = (ctx.idx / (39 * 16)) as usize;
            let c = grid_case(&mut ctx.rng, kind, residue, sel);
            judge_hide(ctx, &c);
        }
        "random" => {
            let c = random_case(&mut ctx.rng);
            judge_hide(ctx, &c);
        }
        "feedback" => {
            let c = feedback_case(&mut ctx.rng);
            ctx.rep.bucket("feedback.cases");
            judge_hide(ctx, &c);
        }
        "reveal_any" => judge_reveal(ctx),
        "giant" => {
            // block counts at and beyond 2^12 and 2^16 (hide accepts any length padding)
            // every 16th giant case (thorough: more) goes past 2^24 octets, where single-precision
            // arithmetic stops being exact
            // (release build only: two MD5 implementations over 16 MiB take the debug build half a minute)
            let colossal = ctx.idx % 16 == 7 && ctx.build != "dbg";
            let blocks = if colossal { (1usize << 20) + *ctx.rng.pick(&[1usize, 2, 3]) } else { *ctx.rng.pick(&[4_095usize, 4_096, 4_097, 65_535, 65_536, 65_537, 65_540]) };
            let a = val::avp_kind(&mut ctx.rng, (ctx.idx % 39) as usize, 40);
            let plen = senc::payload(&a).len();
            // plaintext length (before alignment padding) = 16*(blocks-1) + 1..16
            let target = 16 * (blocks - 1) + if colossal { [1usize, 2, 15, 16][((ctx.idx / 16) % 4) as usize] } else { 1 + ctx.rng.below(16) as usize };
            let lp = ctx.rng.bytes(target - 2 - plen);
            let mut ap = [0u8; 16];
            ap.copy_from_slice(&ctx.rng.bytes(16));
            let mut rv = [0u8; 4];
            rv.copy_from_slice(&ctx.rng.bytes(4));
            let mut secret = val::secret(&mut ctx.rng);
            secret.truncate(64); // see C13: per-block cost grows with the secret
            let c = HideCase { a, secret, rv, lp, ap };
            ctx.rep.bucket("hide.giant");
            judge_hide(ctx, &c);
            // and the reference's own output must be revealed identically by the crate
            let v = shide::hide(c.a.attr, &senc::payload(&c.a), &c.secret, &c.rv, &c.lp, &c.ap);
            match exec::reveal(exec::hidden_exact(c.a.attr, &v), &c.secret, c.rv) {
                Out::Ok(b) if b == c.a => ctx.rep.bucket("reveal.giant.ok"),
                other => ctx.violate("C12:reveal-giant", format!("a hidden value of {} blocks built per RFC 2661 4.3 reveals as {}", v.len() / 16, out_str(&other)), c.witness()),
            }
        }
        _ => unreachable!(),
    }
}
