//! C06 The encoder emits exactly the specified octets for every message and AVP.

use super::common::*;
use super::*;
use crate::exec::{self, Out, Wk};
use crate::gen::val;
use crate::glue;
use crate::report::J;
use crate::spec::encode as senc;
use crate::spec::model::*;

pub fn def() -> PropDef {
    PropDef {
        id: "C06",
        num: 6,
        streams,
        run,
        floors,
        rule: "values from G-val (all 40 AVP variants, control messages, data messages with every L/S/O/P shape and arbitrary length/offset field values) are encoded by the crate (VecWriter and recording writer) and compared octet for octet with the reference encoder; on mismatch the first differing offset is reported. Distinct = distinct values; non-trivial = encodings longer than a bare header.",
    }
}

fn streams(t: Tier) -> Vec<StreamDef> {
    vec![st("avp", t.n(80_000, 4_000_000, 200, 20_000), false), st("control", t.n(20_000, 600_000, 40, 5_000), false), st("data", t.n(40_000, 2_000_000, 60, 10_000), false), st("exact_sizes", t.n(281 * 40 * 4, 281 * 40 * 8, 40, 281 * 40), false)]
}

fn floors(t: Tier) -> Vec<(String, u64)> {
    if t == Tier::Miri {
        return vec![("match".into(), 50)];
    }
    let mut f: Vec<(String, u64)> = vec![("match".into(), 50_000), ("len.256-1022".into(), 100), ("len.1023".into(), 20)];
    for k in 0..val::KINDS {
        f.push((format!("kind.{}", k), 20));
    }
    for s in 0..16 {
        f.push((format!("shape.{}", s), 50));
    }
    f
}

fn first_diff(a: &[u8], b: &[u8]) -> usize {
    a.iter().zip(b.iter()).position(|(x, y)| x != y).unwrap_or(a.len().min(b.len()))
}

fn field_at_avp(off: usize) -> &'static str {
    match off {
        0 => "flags+length-high",
        1 => "length-low",
        2 | 3 => "vendor-id",
        4 | 5 => "attribute-type",
        _ => "payload",
    }
}

fn compare(ctx: &mut Ctx, what: &str, class_hint: &str, got: &[u8], want: &[u8], desc: &str, field: impl Fn(usize) -> String) {
    if got == want {
        ctx.rep.bucket("match");
    } else {
        let at = first_diff(got, want);
        ctx.violate(
            format!("C06:{}:{}:{}", what, class_hint, field(at)),
            format!("encoder output differs from the reference at offset {} ({}): crate {} reference {}", at, field(at), crate::report::hex(&got[..got.len().min(128)]), crate::report::hex(&want[..want.len().min(128)])),
            J::obj(vec![("value", J::s(desc.to_string())), ("crate_hex", J::hex(&got[..got.len().min(2048)])), ("reference_hex", J::hex(&want[..want.len().min(2048)]))]),
        );
    }
}

fn run(ctx: &mut Ctx) {
    match ctx.stream {
        "avp" => {
            let k = (ctx.idx % val::KINDS as u64) as usize;
            let a = val::avp_kind(&mut ctx.rng, k, 1017);
            ctx.rep.bucket(&format!("kind.{}", k));
            let desc = format!("{:?}", a);
            let ca = match glue::avp_to_crate(&a) {
                Some(x) => x,
                None => return,
            };
            let want = senc::avp(&a).expect("in domain");
            ctx.rep.case(desc.as_bytes(), want.len() > 6);
            ctx.rep.bucket(&format!("len.{}", len_bucket(want.len())));
            let base = *ctx.rng.pick(&[65_536usize, 70_000, 0x1_0000_0000, 1 << 40]);
            for wk in [Wk::Vec, Wk::Recording, Wk::OffsetLenient(base), Wk::WhileUnwinding] {
                match exec::encode_avp(&ca, wk) {
                    exec::EncOut::Ok(e) => compare(ctx, "avp", &format!("attr{}", a.attr), &e.bytes, &want, &desc, |at| field_at_avp(at).to_string()),
                    exec::EncOut::Panic(p) => ctx.violate(format!("C06:avp:encode-panic:{}", p.class()), format!("encoding {:?} panicked: {}", a, p.message), J::obj(vec![("value", J::s(desc.clone()))])),
                }
            }
            if let Some(twin) = glue::noncanonical_twin(&ca) {
                ctx.rep.bucket("avp.noncanonical_twin");
                match exec::encode_avp(&twin, Wk::Vec) {
                    exec::EncOut::Ok(e) => compare(ctx, "avp-twin", &format!("attr{}", a.attr), &e.bytes, &want, &desc, |at| field_at_avp(at).to_string()),
                    exec::EncOut::Panic(p) => ctx.violate(format!("C06:avp-twin:encode-panic:{}", p.class()), format!("encoding {:?} with its absent text given as Some(\"\") panicked: {}", a, p.message), J::obj(vec![("value", J::s(desc.clone()))])),
                }
            }
            ctx.rep.sample(|| J::obj(vec![("avp", J::s(desc.clone())), ("reference_hex", J::hex(&want[..want.len().min(64)]))]));
        }
        "control" | "exact_sizes" => {
            let (max_avps, maxp) = if ctx.rng.chance(1, 20) { (70, 1017) } else { (10, 80) };
            let mut c = if ctx.stream == "exact_sizes" {
                // a message of exactly T octets (T = 20..=300) ending in an AVP of each kind: fixed
                // inline buffers, word-wise copies and "small message" fast paths end at some T
                let t = 20 + (ctx.idx % 281) as usize;
                let k = ((ctx.idx / 281) % val::KINDS as u64) as usize;
                let last = val::avp_kind(&mut ctx.rng, k, 24);
                let used = 12 + 8 + 6 + senc::payload(&last).len();
                let mut avps = vec![val::avp_of(&mut ctx.rng, 0, 8)];
                if t < used {
                    return;
                }
                let need = t - used;
                if need != 0 {
                    if need < 7 || need > 1023 {
                        return;
                    }
                    avps.push(SAvp { attr: 7, hidden: false, body: SBody::Bytes(ctx.rng.bytes(need - 6)) });
                }
                avps.push(last);
                ctx.rep.bucket("exact_sizes.cases");
                SControl { length: t as u16, tunnel: ctx.rng.u16b(), session: ctx.rng.u16b(), ns: ctx.rng.u16b(), nr: ctx.rng.u16b(), avps }
            } else {
                val::control(&mut ctx.rng, max_avps, maxp)
            };
            // the length member of the value is an input the encoder must ignore
            if ctx.rng.bool() {
                c.length = ctx.rng.u16b();
            }
            let m = SMsg::Control(c.clone());
            let cm = glue::msg_to_crate(&m).unwrap();
            let want = senc::message(&m).expect("in domain");
            ctx.rep.case(&crate::monitor::hll::hash_bytes(6, &want).to_le_bytes(), want.len() > 12);
            let desc = format!("{:?}", c);
            let base = *ctx.rng.pick(&[65_536usize, 70_000, 0x1_0000_0000, 1 << 40]);
            // the same encode on a fresh thread with a modest stack, in its body and from
            // thread-local destructors while it is torn down
            if ctx.tier != Tier::Miri && ctx.rng.chance(1, 24) {
                let direct: Out<Vec<u8>> = Out::Ok(want.clone());
                let cm2 = glue::msg_to_crate(&m).unwrap();
                thread_env_check(
                    ctx,
                    "C06",
                    &direct,
                    move || match exec::encode_msg(&cm2, Wk::Vec) {
                        exec::EncOut::Ok(e) => Out::Ok(e.bytes),
                        exec::EncOut::Panic(p) => Out::Panic(p),
                    },
                    J::obj(vec![("value", J::s(desc.clone())), ("reference_hex", J::hex(&want[..want.len().min(256)]))]),
                );
            }
            for wk in [Wk::Vec, Wk::OffsetLenient(base), Wk::WhileUnwinding] {
                match exec::encode_msg(&cm, wk) {
                    exec::EncOut::Ok(e) => compare(ctx, "control", "msg", &e.bytes, &want, &desc, |at| if at < 2 { "flags".into() } else if at < 4 { "length".into() } else if at < 12 { "header".into() } else { "avps".into() }),
                    exec::EncOut::Panic(p) => ctx.violate(format!("C06:control:encode-panic:{}", p.class()), format!("encoding panicked: {}", p.message), J::obj(vec![("value", J::s(desc.clone()))])),
                }
            }
        }
        "data" => {
            let shape = (ctx.idx % 16) as u8;
            let mut d = val::data(&mut ctx.rng, Some(shape), 64);
            // length / offset field values are written verbatim: any value is in the domain
            if d.length.is_some() && ctx.rng.bool() {
                d.length = Some(ctx.rng.u16b());
            }
            if d.offset.is_some() && ctx.rng.bool() {
                d.offset = Some(ctx.rng.u16b());
            }
            if ctx.rng.chance(1, 10) {
                d.data = vec![];
            }
            ctx.rep.bucket(&format!("shape.{}", shape));
            let m = SMsg::Data(d.clone());
            let cm = glue::msg_to_crate(&m).unwrap();
            let want = senc::message(&m).unwrap();
            let desc = format!("{:?}", d);
            ctx.rep.case(desc.as_bytes(), want.len() > 6);
            for wk in [Wk::Vec, Wk::Recording, Wk::Presized(1500), Wk::Reused, Wk::WhileUnwinding] {
                match exec::encode_msg(&cm, wk) {
                    exec::EncOut::Ok(e) => compare(ctx, "data", &format!("shape{}", shape), &e.bytes, &want, &desc, |at| if at < 2 { "flags".into() } else { format!("offset{}", at.min(14)) }),
                    exec::EncOut::Panic(p) => ctx.violate(format!("C06:data:encode-panic:{}", p.class()), format!("encoding panicked: {}", p.message), J::obj(vec![("value", J::s(desc.clone()))])),
                }
            }
        }
        _ => unreachable!(),
    }
}
