//! C19 Codec is pure: nothing on stdout/stderr, no state, same result on every thread.
//!
//! Worker side: history independence inside one process, steady-state heap (M5), threads with an
//! observed interleaving, and a digest of every call's result so that the supervisor can compare
//! the same calls across processes with different histories. The fd / strace / Miri / TSan
//! monitors are driven by the supervisor around this same workload.

use super::c11::random_case;
use super::*;
use crate::exec::{self, Out, Rk, Wk};
use crate::gen::{val, wire};
use crate::glue;
use crate::monitor::alloc;
use crate::monitor::hll::hash_bytes;
use crate::report::J;
use crate::spec::encode as senc;
use crate::spec::hide as shide;
use crate::spec::model::*;
use rl2tp::common::DecodeError;
use std::sync::atomic::{AtomicU64, Ordering};
use std::sync::{Arc, Barrier};

pub fn def() -> PropDef {
    PropDef {
        id: "C19",
        num: 19,
        streams,
        run,
        floors,
        rule: "call lists mixing every public entry point (decode of accepted and rejected control/data/AVP-list inputs of all kinds under random options, per-type decoders, encode, get_length, hide, reveal Ok and Err, Display of every DecodeError variant) are executed in order, reversed, interleaved with unrelated calls and repeated; every call's result digest must equal its first result. The same cases run in other processes in another order (supervisor compares digests), with fds 1/2 captured and under strace (must carry 0 octets), under a counting allocator (zero net growth over identical rounds after warm-up), and on 16 threads with barrier start and yields (results equal the single-thread ones; the ticket order gives the observed interleaving). Distinct = distinct call lists; non-trivial = list exercising at least 4 different entry points. Also: per-call heap baseline after warm-up; snapshots of every writable static / thread-local of the codec at quiescent points; call lists include refused encodes and a reader that declines bytes() across a seam; the workloads of C01/C05/C08/C10/C13/C15/C20 re-run with fds captured under two process partitions whose merged outcome counters must be identical.",
    }
}

fn streams(t: Tier) -> Vec<StreamDef> {
    vec![
        st("history", t.n(3_000, 100_000, 6, 1_000), false),
        st("heap_rounds", t.n(400, 10_000, 0, 0), false),
        st("threads", t.n(160, 4_000, 2, 160), false),
        st("statics", t.n(400, 10_000, 0, 0), false),
    ]
}

fn floors(t: Tier) -> Vec<(String, u64)> {
    if t == Tier::Miri {
        return vec![("calls.executed".into(), 50)];
    }
    let mut f: Vec<(String, u64)> = vec![("calls.executed".into(), 100_000), ("history.lists".into(), 1000), ("thread.switches".into(), 1000), ("thread.results_compared".into(), 10_000)];
    if t != Tier::San {
        f.push(("heap.rounds".into(), 300));
        f.push(("heap.per_call_checks".into(), 10_000));
        f.push(("statics.rounds".into(), 300));
    }
    for e in ENTRY_POINTS.iter() {
        f.push((format!("entry.{}", e), 200));
    }
    f
}

pub const ENTRY_POINTS: [&str; 12] = ["decode_msg", "try_read", "decode_avps", "type_decoder", "encode_msg", "encode_avp", "get_length", "hide", "reveal", "error_display", "encode_refused", "decode_seam_reader"];

#[derive(Clone, Debug)]
pub enum Call {
    DecodeMsg(Vec<u8>, SOpts),
    TryRead(Vec<u8>),
    DecodeAvps(Vec<u8>),
    TypeDecoder(u16, Vec<u8>),
    EncodeMsg(SMsg),
    EncodeAvp(SAvp),
    GetLength(SAvp),
    Hide(SAvp, Vec<u8>, [u8; 4], Vec<u8>, [u8; 16]),
    Reveal(u16, Vec<u8>, Vec<u8>, [u8; 4]),
    ErrorDisplay(u8, u16),
    /// an encode that the codec must refuse (oversize AVP inside a message, or a writer that runs
    /// out of room after `cap` octets)
    EncodeRefused(SMsg, Option<usize>),
    /// decode through a reader whose bytes() declines across a seam
    DecodeSeam(Vec<u8>, usize),
}

impl Call {
    pub fn entry(&self) -> usize {
        match self {
            Call::DecodeMsg(..) => 0,
            Call::TryRead(..) => 1,
            Call::DecodeAvps(..) => 2,
            Call::TypeDecoder(..) => 3,
            Call::EncodeMsg(..) => 4,
            Call::EncodeAvp(..) => 5,
            Call::GetLength(..) => 6,
            Call::Hide(..) => 7,
            Call::Reveal(..) => 8,
            Call::ErrorDisplay(..) => 9,
            Call::EncodeRefused(..) => 10,
            Call::DecodeSeam(..) => 11,
        }
    }
}

pub fn error_variant(k: u8, x: u16) -> DecodeError {
    use DecodeError as D;
    match k % 27 {
        0 => D::IncompleteAVP(x),
        1 => D::UnknownMessageType(x),
        2 => D::InvalidUtf8(x),
        3 => D::InvalidResultCodeErrorType(x),
        4 => D::AVPReadError(x),
        5 => D::InvalidAVPLength(x),
        6 => D::UnknownAvp(x),
        7 => D::EmptyHiddenAVP,
        8 => D::MisalignedHiddenAVP,
        9 => D::InvalidOriginalAVPLength(x),
        10 => D::UnsupportedVendorId(x),
        11 => D::InvalidVersion(x as u8),
        12 => D::InvalidReservedBits,
        13 => D::IncompleteFlags,
        14 => D::InvalidOffset(x),
        15 => D::IncompleteDataMessageHeader,
        16 => D::IncompleteDataMessagePayload,
        17 => D::EmptyDataMessagePayload,
        18 => D::MessageReadError,
        19 => D::ForbiddenControlMessagePriority,
        20 => D::ForbiddenControlMessageOffset,
        21 => D::ControlMessageWithoutLength,
        22 => D::ControlMessageWithoutNsNr,
        23 => D::IncompleteControlMessageHeader,
        24 => D::IncompleteControlMessagePayload,
        25 => D::ControlMessageTypeNotFirst,
        _ => D::IncompleteAVP(x.wrapping_add(1)),
    }
}

fn digest<T: std::fmt::Debug>(o: &Out<T>) -> u64 {
    let s = match o {
        Out::Ok(v) => format!("Ok:{:?}", v),
        Out::Err(e) => format!("Err:{:?}|{}", e, e.iter().map(|x| x.to_string()).collect::<Vec<_>>().join("|")),
        Out::Panic(p) => format!("Panic:{}", p.class()),
        Out::Budget => "Budget".to_string(),
    };
    hash_bytes(19, s.as_bytes())
}

/// Execute one call against the codec and return a digest of everything observable about its
/// result.
pub fn exec_call(c: &Call) -> u64 {
    match c {
        Call::DecodeMsg(b, o) => {
            let r = exec::decode_msg(b, Some(*o), Rk::Slice);
            digest(&r.out) ^ (r.remaining as u64).wrapping_mul(0x9e37)
        }
        Call::TryRead(b) => {
            let r = exec::decode_msg(b, None, Rk::ContractVec);
            digest(&r.out) ^ (r.remaining as u64).wrapping_mul(0x9e37)
        }
        Call::DecodeAvps(b) => {
            let r = exec::decode_avps(b, Rk::Slice);
            match &r.out {
                Out::Ok(l) => hash_bytes(19, format!("{:?}|{}", l, l.iter().filter_map(|x| x.as_ref().err().map(|e| e.to_string())).collect::<Vec<_>>().join("|")).as_bytes()),
                o => digest(o),
            }
        }
        Call::TypeDecoder(attr, p) => match exec::decode_type(*attr, p, Rk::Slice) {
            Some(r) => digest(&r.out),
            None => 0,
        },
        Call::EncodeMsg(m) => match glue::msg_to_crate(m) {
            Some(cm) => match exec::encode_msg(&cm, Wk::Vec) {
                exec::EncOut::Ok(e) => hash_bytes(19, &e.bytes),
                exec::EncOut::Panic(p) => hash_bytes(19, p.class().as_bytes()),
            },
            None => 0,
        },
        Call::EncodeAvp(a) => match glue::avp_to_crate(a) {
            Some(ca) => match exec::encode_avp(&ca, Wk::Recording) {
                exec::EncOut::Ok(e) => hash_bytes(19, &e.bytes),
                exec::EncOut::Panic(p) => hash_bytes(19, p.class().as_bytes()),
            },
            None => 0,
        },
        Call::GetLength(a) => match glue::avp_to_crate(a) {
            Some(ca) => exec::get_length(&ca).map(|n| n as u64).unwrap_or(u64::MAX),
            None => 0,
        },
        Call::Hide(a, s, rv, lp, ap) => match glue::avp_to_crate(a) {
            Some(ca) => match exec::hide(ca, s, *rv, lp, ap) {
                Ok(h) => hash_bytes(19, format!("{:?}", glue::avp_to_spec(&h)).as_bytes()),
                Err(p) => hash_bytes(19, p.class().as_bytes()),
            },
            None => 0,
        },
        Call::Reveal(attr, v, s, rv) => digest(&exec::reveal(exec::hidden_exact(*attr, v), s, *rv)),
        Call::EncodeRefused(m, cap) => match glue::msg_to_crate(m) {
            Some(cm) => match cap {
                None => match exec::encode_msg(&cm, Wk::Vec) {
                    exec::EncOut::Ok(e) => hash_bytes(19, &e.bytes),
                    exec::EncOut::Panic(p) => hash_bytes(19, p.class().as_bytes()),
                },
                Some(cap) => {
                    let cap = *cap;
                    match crate::monitor::panic::catch(move || {
                        let mut w = crate::monitor::writer::BoundedWriter::new(cap);
                        cm.write(&mut w);
                        w.data
                    }) {
                        crate::monitor::panic::Ended::Returned(d) => hash_bytes(19, &d),
                        crate::monitor::panic::Ended::Panicked(p) => hash_bytes(19, p.class().as_bytes()),
                        _ => 2,
                    }
                }
            },
            None => 0,
        },
        Call::DecodeSeam(b, seam) => digest(&exec::decode_msg_seam(b, *seam, None)),
        Call::ErrorDisplay(k, x) => {
            let e = error_variant(*k, *x);
            match crate::monitor::panic::catch(|| format!("{}|{:?}", e, e)) {
                crate::monitor::panic::Ended::Returned(s) => hash_bytes(19, s.as_bytes()),
                _ => 1,
            }
        }
    }
}

pub fn gen_call(r: &mut crate::gen::Rng, entry: usize) -> Call {
    match entry {
        0 => {
            let b = if r.chance(2, 3) { wire::valid_message(r).bytes } else { wire::hostile(r).0 };
            Call::DecodeMsg(b, SOpts::from_index(r.below(8) as u8))
        }
        1 => {
            let b = if r.chance(2, 3) { wire::valid_message(r).bytes } else { wire::hostile(r).0 };
            Call::TryRead(b)
        }
        2 => {
            let mut b = Vec::new();
            for _ in 0..r.range(1, 5) {
                let attr = if r.chance(4, 5) { crate::spec::tables::ATTRS[r.below(39) as usize].0 } else { r.u16b() };
                let hidden = r.chance(1, 8);
                b.extend_from_slice(&wire::avp_record(r, attr, hidden));
            }
            if r.chance(1, 5) {
                let cut = r.below(b.len() as u64 + 1) as usize;
                b.truncate(cut);
            }
            Call::DecodeAvps(b)
        }
        3 => {
            let attr = super::c02::PER_TYPE[r.below(38) as usize];
            let n = r.range(0, 30) as usize;
            let p = if r.bool() { wire::valid_payload(r, attr, n) } else { r.bytes(n) };
            Call::TypeDecoder(attr, p)
        }
        4 => {
            if r.bool() {
                Call::EncodeMsg(SMsg::Control(val::control(r, 6, 60)))
            } else {
                Call::EncodeMsg(SMsg::Data(val::data(r, None, 40)))
            }
        }
        5 => Call::EncodeAvp(val::any_avp(r, 80)),
        6 => Call::GetLength(val::any_avp(r, 80)),
        7 => {
            let c = random_case(r);
            Call::Hide(c.a, c.secret, c.rv, c.lp, c.ap)
        }
        8 => {
            let secret = val::secret(r);
            let mut rv = [0u8; 4];
            rv.copy_from_slice(&r.bytes(4));
            if r.bool() {
                // a value that reveals successfully (built with the reference cipher)
                let c = random_case(r);
                let v = shide::hide(c.a.attr, &senc::payload(&c.a), &secret, &rv, &c.lp, &c.ap);
                Call::Reveal(c.a.attr, v, secret, rv)
            } else {
                let n = *r.pick(&[0usize, 15, 16, 32, 48]);
                // keep the decrypted length field in range so that this does not trip over the
                // totality of reveal (C13's business): craft the plaintext
                let v = if n >= 16 {
                    let mut plain = r.bytes(n);
                    let declared = r.range(0, n as u64 + 8) as u16;
                    plain[0] = (declared >> 8) as u8;
                    plain[1] = declared as u8;
                    shide::encrypt(7, &plain, &secret, &rv)
                } else {
                    r.bytes(n)
                };
                Call::Reveal(7, v, secret, rv)
            }
        }
        10 => {
            let mut c = val::control(r, 4, 40);
            if c.avps.is_empty() {
                c.avps.push(val::avp_of(r, 0, 8));
            }
            if r.bool() {
                let at = 1 + r.below(c.avps.len() as u64) as usize;
                c.avps.insert(at, SAvp { attr: 7, hidden: false, body: SBody::Bytes(r.bytes_range(1018, 1060)) });
                Call::EncodeRefused(SMsg::Control(c), None)
            } else {
                Call::EncodeRefused(SMsg::Control(c), Some(r.range(0, 30) as usize))
            }
        }
        11 => {
            let w = wire::valid_message(r);
            let seam = r.below(w.bytes.len() as u64 + 1) as usize;
            Call::DecodeSeam(w.bytes, seam)
        }
        _ => Call::ErrorDisplay(r.below(27) as u8, if r.bool() { r.range(0, 45) as u16 } else { r.u16b() }),
    }
}

pub fn gen_list(r: &mut crate::gen::Rng, n: usize) -> Vec<Call> {
    (0..n)
        .map(|i| {
            let e = if i < 12 { i } else { r.below(12) as usize };
            gen_call(r, e)
        })
        .collect()
}

fn note_entries(ctx: &mut Ctx, calls: &[Call], times: u64) {
    for c in calls {
        ctx.rep.bucket_n(&format!("entry.{}", ENTRY_POINTS[c.entry()]), times);
    }
    ctx.rep.bucket_n("calls.executed", calls.len() as u64 * times);
}

fn history_case(ctx: &mut Ctx) {
    let miri = ctx.tier == Tier::Miri;
    let n = if miri { 12 } else { ctx.rng.range(12, 26) as usize };
    let calls = gen_list(&mut ctx.rng, n);
    let unrelated = gen_list(&mut ctx.rng, 10);
    let key = format!("{:?}", calls);
    let kinds: std::collections::BTreeSet<usize> = calls.iter().map(|c| c.entry()).collect();
    ctx.rep.case(key.as_bytes(), kinds.len() >= 4);
    ctx.rep.bucket("history.lists");
    // (b) in order: the first execution defines the expected digest of each call
    let first: Vec<u64> = calls.iter().map(exec_call).collect();
    // running digest over all cases of this worker, compared across processes by the supervisor
    let mut d = hash_bytes(19, &ctx.idx.to_le_bytes());
    for h in first.iter() {
        d = crate::monitor::hll::mix64(d ^ *h);
    }
    ctx.rep.digests.push((ctx.idx, d));
    let fail = |ctx: &mut Ctx, how: &str, i: usize| {
        ctx.violate(
            format!("C19:history:{}:{}", how, ENTRY_POINTS[calls[i].entry()]),
            format!("call #{} ({}) gave a different result when executed {} than the first time", i, ENTRY_POINTS[calls[i].entry()], how),
            J::obj(vec![("call", J::s(format!("{:?}", calls[i]))), ("call_index", J::U(i as u64)), ("list_len", J::U(calls.len() as u64))]),
        );
    };
    // (b') ambient thread state: an encode performed from a destructor while the thread unwinds
    // from an unrelated panic must produce the octets of an ordinary encode
    for (i, c) in calls.iter().enumerate() {
        let (normal, unwinding) = match c {
            Call::EncodeMsg(m) => match glue::msg_to_crate(m) {
                Some(cm) => (exec::encode_msg(&cm, Wk::Vec), exec::encode_msg(&cm, Wk::WhileUnwinding)),
                None => continue,
            },
            Call::EncodeAvp(a) => match glue::avp_to_crate(a) {
                Some(ca) => (exec::encode_avp(&ca, Wk::Vec), exec::encode_avp(&ca, Wk::WhileUnwinding)),
                None => continue,
            },
            _ => continue,
        };
        ctx.rep.bucket("encode.while_unwinding.compared");
        let same = match (&normal, &unwinding) {
            (exec::EncOut::Ok(a), exec::EncOut::Ok(b)) => a.bytes == b.bytes,
            (exec::EncOut::Panic(_), exec::EncOut::Panic(_)) => true,
            _ => false,
        };
        if !same {
            fail(ctx, "while-the-thread-is-unwinding", i);
            return;
        }
    }
    // (c) reversed
    for i in (0..n).rev() {
        if exec_call(&calls[i]) != first[i] {
            fail(ctx, "reversed", i);
            return;
        }
    }
    // (d) interleaved with unrelated calls
    for i in 0..n {
        let _ = exec_call(&unrelated[i % unrelated.len()]);
        if exec_call(&calls[i]) != first[i] {
            fail(ctx, "interleaved", i);
            return;
        }
    }
    // (e) repeated
    for _ in 0..(if miri { 0 } else { 3 }) {
        for i in 0..n {
            if exec_call(&calls[i]) != first[i] {
                fail(ctx, "repeated", i);
                return;
            }
        }
    }
    note_entries(ctx, &calls, 6);
    ctx.rep.sample(|| J::obj(vec![("calls", J::A(calls.iter().take(4).map(|c| J::s(format!("{:?}", c).chars().take(160).collect::<String>())).collect())), ("list_len", J::U(n as u64))]));
}

fn heap_case(ctx: &mut Ctx) {
    let calls = gen_list(&mut ctx.rng, 40);
    ctx.rep.case(format!("heap{:?}", calls).as_bytes(), true);
    // warm-up (one-time initialisation is allowed), then identical rounds must not grow the heap
    let mut acc = 0u64;
    for c in calls.iter() {
        acc ^= exec_call(c);
    }
    alloc::set_tracking(true);
    let before = alloc::snapshot();
    for _ in 0..4 {
        for c in calls.iter() {
            acc ^= exec_call(c);
        }
    }
    let after = alloc::snapshot();
    // per-call baseline: once everything has been executed before (one-time initialisation is
    // over), each call must hand back every octet it allocated by the time it has returned and
    // its result has been dropped; anything that stays (a cache entry, a memo, a grown scratch
    // buffer) is state kept between calls
    let mut retained: Vec<(usize, i64, i64)> = Vec::new();
    for (i, c) in calls.iter().enumerate() {
        let b = alloc::snapshot();
        acc ^= exec_call(c);
        let a = alloc::snapshot();
        if a.live_bytes != b.live_bytes || a.live_blocks != b.live_blocks {
            retained.push((i, a.live_bytes - b.live_bytes, a.live_blocks - b.live_blocks));
        }
    }
    alloc::set_tracking(false);
    ctx.rep.bucket_n("heap.per_call_checks", calls.len() as u64);
    if let Some((i, db, dk)) = retained.first() {
        ctx.violate(
            format!("C19:heap-retained-after-call:{}", ENTRY_POINTS[calls[*i].entry()]),
            format!("after warm-up, call #{} ({}) returned with the live heap changed by {} bytes / {} blocks although its result was dropped ({} of {} calls in this list do so): the codec keeps data between calls", i, ENTRY_POINTS[calls[*i].entry()], db, dk, retained.len(), calls.len()),
            J::obj(vec![("call", J::s(format!("{:?}", calls[*i]).chars().take(300).collect::<String>()))]),
        );
    }
    std::hint::black_box(acc);
    ctx.rep.bucket("heap.rounds");
    ctx.rep.bucket_n("heap.allocations_observed", after.total_allocs - before.total_allocs);
    if after.live_bytes != before.live_bytes || after.live_blocks != before.live_blocks {
        ctx.violate(
            "C19:heap-growth",
            format!("4 identical rounds of 40 calls after warm-up changed the live heap by {} bytes / {} blocks (state retained between calls, or a leak)", after.live_bytes - before.live_bytes, after.live_blocks - before.live_blocks),
            J::obj(vec![("calls", J::A(calls.iter().take(6).map(|c| J::s(format!("{:?}", c).chars().take(120).collect::<String>())).collect()))]),
        );
    }
    note_entries(ctx, &calls, 5);
}

fn thread_case(ctx: &mut Ctx) {
    let n_threads = if ctx.tier == Tier::Miri { 3 } else { 16 };
    let n_calls = if ctx.tier == Tier::Miri { 8 } else { 40 };
    let calls = Arc::new(gen_list(&mut ctx.rng, n_calls));
    ctx.rep.case(format!("thr{:?}", calls).as_bytes(), true);
    let expected: Arc<Vec<u64>> = Arc::new(calls.iter().map(exec_call).collect());
    let ticket = Arc::new(AtomicU64::new(0));
    let barrier = Arc::new(Barrier::new(n_threads));
    let seed = ctx.rng.next();
    let mut handles = Vec::new();
    for t in 0..n_threads {
        let calls = calls.clone();
        let expected = expected.clone();
        let ticket = ticket.clone();
        let barrier = barrier.clone();
        handles.push(std::thread::spawn(move || {
            let mut r = crate::gen::Rng::new(seed ^ (t as u64).wrapping_mul(0x9e3779b97f4a7c15));
            let mut log: Vec<(u64, usize)> = Vec::with_capacity(calls.len());
            let mut bad: Vec<usize> = Vec::new();
            barrier.wait();
            let n = calls.len();
            let start = r.below(n as u64) as usize;
            for k in 0..n {
                let i = (start + k) % n;
                let tk = ticket.fetch_add(1, Ordering::SeqCst);
                log.push((tk, i));
                if exec_call(&calls[i]) != expected[i] {
                    bad.push(i);
                }
                if r.chance(1, 3) {
                    std::thread::yield_now();
                }
            }
            (t, log, bad)
        }));
    }
    let mut merged: Vec<(u64, usize)> = Vec::new();
    for h in handles {
        match h.join() {
            Ok((t, log, bad)) => {
                for i in bad {
                    ctx.violate(
                        format!("C19:threads:result-differs:{}", ENTRY_POINTS[calls[i].entry()]),
                        format!("call #{} ({}) on thread {} of {} gave a different result than on a single thread", i, ENTRY_POINTS[calls[i].entry()], t, n_threads),
                        J::obj(vec![("call", J::s(format!("{:?}", calls[i])))]),
                    );
                }
                ctx.rep.bucket_n("thread.results_compared", log.len() as u64);
                merged.extend(log.into_iter().map(|(tk, _)| (tk, t)));
            }
            Err(_) => ctx.violate("C19:threads:thread-panicked", "a worker thread panicked outside panic capture", J::Null),
        }
    }
    // observed interleaving: order of tickets -> sequence of thread ids
    merged.sort();
    let mut switches = 0u64;
    let mut pairs = std::collections::BTreeSet::new();
    for w in merged.windows(2) {
        if w[0].1 != w[1].1 {
            switches += 1;
            pairs.insert((w[0].1, w[1].1));
        }
    }
    ctx.rep.bucket_n("thread.switches", switches);
    ctx.rep.bucket_n("thread.distinct_adjacent_pairs", pairs.len() as u64);
    ctx.rep.bucket("thread.rounds");
    note_entries(ctx, &calls, n_threads as u64 + 1);
    ctx.rep.sample(|| J::obj(vec![("threads", J::U(n_threads as u64)), ("calls_per_thread", J::U(calls.len() as u64)), ("observed_thread_switches", J::U(switches)), ("distinct_adjacent_thread_pairs", J::U(pairs.len() as u64))]));
}

/// M6: writable `rl2tp::` statics and thread-locals of the linked worker (located by the
/// supervisor with nm/readelf and passed in VP_WATCH) are snapshotted at quiescent points.
struct Watch {
    name: String,
    addr: usize,
    size: usize,
}

fn watches() -> Vec<Watch> {
    let spec = match std::env::var("VP_WATCH") {
        Ok(s) if !s.is_empty() => s,
        _ => return vec![],
    };
    // load base of the executable: start of its first mapping
    let exe = std::fs::read_link("/proc/self/exe").ok().map(|p| p.to_string_lossy().to_string()).unwrap_or_default();
    let maps = std::fs::read_to_string("/proc/self/maps").unwrap_or_default();
    let mut base = 0usize;
    for line in maps.lines() {
        if line.ends_with(&exe) {
            if let Some(a) = line.split('-').next() {
                base = usize::from_str_radix(a, 16).unwrap_or(0);
            }
            break;
        }
    }
    // thread pointer (x86-64 variant II TLS: the executable's block ends at the thread pointer)
    let tp: usize;
    #[cfg(all(target_arch = "x86_64", not(miri)))]
    unsafe {
        std::arch::asm!("mov {}, fs:0", out(reg) tp);
    }
    #[cfg(not(all(target_arch = "x86_64", not(miri))))]
    {
        tp = 0;
    }
    let (tls_memsz, tls_align) = {
        let v = std::env::var("VP_TLS").unwrap_or_default();
        let mut p = v.split(':');
        (p.next().and_then(|x| x.parse::<usize>().ok()).unwrap_or(0), p.next().and_then(|x| x.parse::<usize>().ok()).unwrap_or(1).max(1))
    };
    let tls_block = (tls_memsz + tls_align - 1) / tls_align * tls_align;
    let mut out = Vec::new();
    for item in spec.split(';') {
        let f: Vec<&str> = item.splitn(4, ':').collect();
        if f.len() != 4 {
            continue;
        }
        let value = usize::from_str_radix(f[1], 16).unwrap_or(0);
        let size = f[2].parse::<usize>().unwrap_or(0);
        if size == 0 || size > 4096 {
            continue;
        }
        let addr = match f[0] {
            "S" if base != 0 => base + value,
            "T" if tp != 0 && tls_block != 0 => tp - tls_block + value,
            _ => continue,
        };
        out.push(Watch { name: f[3].to_string(), addr, size });
    }
    out
}

fn snapshot(ws: &[Watch]) -> Vec<Vec<u8>> {
    ws.iter().map(|w| unsafe { std::slice::from_raw_parts(w.addr as *const u8, w.size).to_vec() }).collect()
}

fn statics_case(ctx: &mut Ctx) {
    let ws = watches();
    ctx.rep.bucket("statics.rounds");
    ctx.rep.bucket_n("statics.symbols_watched", ws.len() as u64);
    let calls = gen_list(&mut ctx.rng, 30);
    let other = gen_list(&mut ctx.rng, 30);
    ctx.rep.case(format!("st{:?}", calls).as_bytes(), true);
    if ws.is_empty() {
        // nothing writable under rl2tp:: in this binary: nothing to snapshot (still counted)
        note_entries(ctx, &calls, 1);
        for c in calls.iter() {
            let _ = exec_call(c);
        }
        return;
    }
    // warm-up: everything once (lazy one-time initialisation is allowed)
    for c in calls.iter().chain(other.iter()) {
        let _ = exec_call(c);
    }
    let s0 = snapshot(&ws);
    for c in calls.iter() {
        let _ = exec_call(c);
    }
    let s1 = snapshot(&ws);
    for c in other.iter() {
        let _ = exec_call(c);
    }
    let s2 = snapshot(&ws);
    note_entries(ctx, &calls, 3);
    for (i, w) in ws.iter().enumerate() {
        if s0[i] != s1[i] || s1[i] != s2[i] {
            let short: String = w.name.chars().take(90).collect();
            ctx.violate(
                format!("C19:static-state-changes:{}", short),
                format!("the {}-octet writable object {} of the codec changed between quiescent points after warm-up ({} -> {} -> {}): state is kept between calls", w.size, w.name, crate::report::hex(&s0[i][..w.size.min(24)]), crate::report::hex(&s1[i][..w.size.min(24)]), crate::report::hex(&s2[i][..w.size.min(24)])),
                J::obj(vec![("symbol", J::s(w.name.clone())), ("size", J::U(w.size as u64))]),
            );
        }
    }
}

fn run(ctx: &mut Ctx) {
    match ctx.stream {
        "statics" => statics_case(ctx),
        "history" => history_case(ctx),
        "heap_rounds" => heap_case(ctx),
        "threads" => thread_case(ctx),
        _ => unreachable!(),
    }
}
