//! C16 Enumerated protocol fields accept exactly their assigned code points, one-to-one.

use super::common::*;
use super::*;
use crate::exec::{self, Out, Rk, Wk};
use crate::gen::wire;
use crate::glue;
use crate::report::J;
use crate::spec::model::*;
use crate::spec::tables::*;
use rl2tp::avp::types::result_code as rc;
use std::collections::HashMap;

pub fn def() -> PropDef {
    PropDef {
        id: "C16",
        num: 16,
        streams,
        run,
        floors,
        rule: "exhaustive over all 65536 values of each enumerated field: message type, general error type, proxy authen type (decoded inside a one-AVP body and through the per-type decoder), result code (kept raw; as_stop_ccn / as_cdn Ok iff 0..7 / 0..11) and attribute type (non-hidden record with a valid payload for the kind). Accepted <=> assigned in the reference's RFC 2661 table; the accepted value's variant *name* must be the RFC name of that number; re-encoding must give the number back; every named variant encodes to its RFC number. Distinct = distinct (field, value); non-trivial = all (each is one code point of the space). Also: every code through every entry point (message, bare list, per-type decoder, reveal) with the same verdict and value; the record behind 8191..12000 others in a bare list; named values of one result-code family converted to the other.",
    }
}

fn streams(t: Tier) -> Vec<StreamDef> {
    let n = t.n(65536, 65536, 50, 65536);
    let ex = t != Tier::Miri;
    vec![st("message_type", n, ex), st("error_type", n, ex), st("proxy_type", n, ex), st("result_code", n, ex), st("attribute_type", n, ex), st("named_values", 14 + 9 + 6 + 8 + 12, true), st("deep_position", t.n(120, 1200, 0, 120), false), st("context_grid", t.n(context_grid_count(), context_grid_count(), 60, 200_000), t != Tier::Miri && t != Tier::San)]
}

fn floors(t: Tier) -> Vec<(String, u64)> {
    if t == Tier::Miri {
        return vec![("checked".into(), 100)];
    }
    vec![
        ("message_type.accepted".into(), 14),
        ("message_type.rejected".into(), 65522),
        ("error_type.accepted".into(), 9),
        ("error_type.rejected".into(), 65527),
        ("proxy_type.accepted".into(), 6),
        ("proxy_type.rejected".into(), 65530),
        ("result_code.stop_ccn.ok".into(), 8),
        ("result_code.cdn.ok".into(), 12),
        ("result_code.raw_kept".into(), 65536),
        ("attribute_type.accepted".into(), 39),
        ("attribute_type.rejected".into(), 65497),
        ("named.checked".into(), 49),
        ("entry_points.compared".into(), 3 * 3 * 65536 - 10),
        ("deep_position.checked".into(), 100),
    ]
}

fn variant_name<D: std::fmt::Debug>(d: &D) -> String {
    format!("{:?}", d).chars().take_while(|c| c.is_ascii_alphanumeric()).collect()
}

/// decode a control message [Message Type SCCRQ, record(attr, payload)] and return the second AVP
fn decode_second(attr: u16, payload: &[u8]) -> (Vec<u8>, Out<SAvp>, Option<rl2tp::avp::AVP>) {
    let mut body = wire::message_type_record(1);
    body.extend_from_slice(&wire::raw_record(attr, false, 0, payload, true));
    let msg = wire::control_around(&body, 1, 2, 3, 4);
    // decode twice: once to the model, once keeping the crate value for re-encoding
    let run = exec::decode_msg(&msg, Some(SOpts::STRICT), Rk::Slice);
    let out = match run.out {
        Out::Ok(SMsg::Control(c)) if c.avps.len() == 2 => Out::Ok(c.avps[1].clone()),
        Out::Ok(other) => Out::Err(vec![]).tap(|_| drop(other)),
        Out::Err(e) => Out::Err(e),
        Out::Panic(p) => Out::Panic(p),
        Out::Budget => Out::Budget,
    };
    let crate_val = match &out {
        Out::Ok(a) => glue::avp_to_crate(a),
        _ => None,
    };
    (msg, out, crate_val)
}

trait Tap: Sized {
    fn tap(self, f: impl FnOnce(&Self)) -> Self {
        f(&self);
        self
    }
}
impl<T> Tap for T {}

fn check_code16(ctx: &mut Ctx, field: &str, attr: u16, x: u16, table: &[(u16, &str)], payload: Vec<u8>, name_of_value: impl Fn(&SAvp) -> Option<u16>) {
    let assigned = table.iter().any(|(c, _)| *c == x);
    let (msg, out, _) = decode_second(attr, &payload);
    ctx.rep.case(format!("{}:{}", field, x).as_bytes(), true);
    ctx.rep.bucket("checked");
    match (&out, assigned) {
        (Out::Ok(a), true) => {
            ctx.rep.bucket(&format!("{}.accepted", field));
            // glue maps variant *names* to RFC numbers: a swapped table row shows up here
            match name_of_value(a) {
                Some(n) if n == x => {}
                other => ctx.violate(
                    format!("C16:{}:wrong-named-value", field),
                    format!("code {} decodes to the value whose RFC number is {:?}", x, other),
                    w_input(&msg, Some(SOpts::STRICT)),
                ),
            }
            // re-encode through the crate
            if let Some(cv) = glue::avp_to_crate(a) {
                if let exec::EncOut::Ok(e) = exec::encode_avp(&cv, Wk::Vec) {
                    let want = wire::raw_record(attr, false, 0, &payload, true);
                    if e.bytes != want {
                        ctx.violate(format!("C16:{}:reencode-differs", field), format!("code {} re-encodes to {} instead of {}", x, crate::report::hex(&e.bytes), crate::report::hex(&want)), w_input(&msg, Some(SOpts::STRICT)));
                    }
                }
            }
        }
        (Out::Err(_), false) => ctx.rep.bucket(&format!("{}.rejected", field)),
        (Out::Ok(a), false) => ctx.violate(format!("C16:{}:unassigned-accepted", field), format!("unassigned code {} was accepted as {:?}", x, a), w_input(&msg, Some(SOpts::STRICT))),
        (Out::Err(e), true) => ctx.violate(format!("C16:{}:assigned-rejected", field), format!("assigned code {} was rejected: {}", x, errs_str(e)), w_input(&msg, Some(SOpts::STRICT))),
        (other, _) => ctx.violate(format!("C16:{}:{}", field, other.class()), format!("code {}: {}", x, out_str(other)), w_input(&msg, Some(SOpts::STRICT))),
    }
    // the same code followed by surplus payload octets (total payload 255..258, 511..514, 1016,
    // 1017): a fixed-size field must be judged the same whatever follows it in its AVP
    if field != "error_type" {
        let total = *ctx.rng.pick(&[255usize, 256, 257, 258, 511, 512, 513, 514, 1016, 1017]);
        let mut long = payload.clone();
        long.resize(total, 0);
        let (m2, out2, _) = decode_second(attr, &long);
        ctx.rep.bucket("surplus_payload.compared");
        let same = match (&out, &out2) {
            (Out::Ok(a), Out::Ok(b)) => a == b,
            (Out::Err(_), Out::Err(_)) => true,
            _ => false,
        };
        if !same && !out.abnormal() {
            ctx.violate(
                format!("C16:{}:verdict-depends-on-surplus-payload", field),
                format!("code {} alone gives {} but followed by {} surplus payload octets {}", x, out_str(&out), total - payload.len(), out_str(&out2)),
                J::obj(vec![("field", J::s(field)), ("code", J::U(x as u64)), ("payload_octets", J::U(total as u64)), ("input_head_hex", J::hex(&m2[..m2.len().min(40)]))]),
            );
        }
    }
    // the same code through every other entry point must get the same verdict and value:
    // bare AVP list, public per-type decoder, and reveal of a hidden AVP carrying it
    let rec = wire::raw_record(attr, false, 0, &payload, true);
    let mut verdicts: Vec<(&str, Option<SAvp>)> = Vec::new();
    if let Out::Ok(l) = exec::decode_avps(&rec, Rk::ContractVec).out {
        verdicts.push(("try_read_greedy", l.into_iter().next().and_then(|r| r.ok())));
    }
    if let Some(run) = exec::decode_type(attr, &payload, Rk::Slice) {
        if !run.out.abnormal() {
            verdicts.push(("per-type decoder", match run.out { Out::Ok(a) => Some(a), _ => None }));
        }
    }
    {
        let secret = b"c16";
        let rv = [1u8, 2, 3, 4];
        let plain = crate::spec::hide::plaintext(&payload, &[], &[0u8; 16]);
        let value = crate::spec::hide::encrypt(attr, &plain, secret, &rv);
        match exec::reveal(exec::hidden_exact(attr, &value), secret, rv) {
            Out::Ok(a) => verdicts.push(("reveal", Some(a))),
            Out::Err(_) => verdicts.push(("reveal", None)),
            _ => {}
        }
    }
    let base = match &out {
        Out::Ok(a) => Some(a.clone()),
        _ => None,
    };
    if !out.abnormal() {
        for (how, v) in verdicts {
            ctx.rep.bucket("entry_points.compared");
            if v != base {
                ctx.violate(
                    format!("C16:{}:entry-point-disagrees:{}", field, how.replace(' ', "-")),
                    format!("code {} inside a control message gives {:?} but through {} gives {:?}", x, base, how, v),
                    J::obj(vec![("field", J::s(field)), ("code", J::U(x as u64)), ("record_hex", J::hex(&rec))]),
                );
            }
        }
    }
}

thread_local! {
    static IMAGE: std::cell::RefCell<HashMap<String, HashMap<String, u16>>> = std::cell::RefCell::new(HashMap::new());
}

/// injectivity: remember which code produced each decoded value (per field, per worker shard)
fn injective(ctx: &mut Ctx, field: &str, value_key: String, x: u16) {
    let clash = IMAGE.with(|m| {
        let mut m = m.borrow_mut();
        let f = m.entry(field.to_string()).or_default();
        match f.get(&value_key) {
            Some(prev) if *prev != x => Some(*prev),
            _ => {
                f.insert(value_key.clone(), x);
                None
            }
        }
    });
    if let Some(prev) = clash {
        ctx.violate(format!("C16:{}:not-injective", field), format!("codes {} and {} decode to the same value {}", prev, x, value_key), J::obj(vec![("codes", J::A(vec![J::U(prev as u64), J::U(x as u64)]))]));
    }
}

/// Error-type values tried in every context: the assigned ones and their surroundings, every
/// multiple of 256 (a value whose low octet looks assigned), the usual boundaries, source literals.
fn error_values() -> &'static Vec<u16> {
    static V: std::sync::OnceLock<Vec<u16>> = std::sync::OnceLock::new();
    V.get_or_init(|| {
        let mut v: Vec<u16> = (0..=300u16).collect();
        for k in 1..=255u16 {
            v.push(k << 8);
            v.push((k << 8) | (k % 9));
        }
        v.extend_from_slice(&[0x7fff, 0x8000, 0x8001, 0xfffe, 0xffff, 0x0808, 0x0108, 0x0109]);
        v.extend(crate::gen::dict::ints_upto(0xffff).iter().map(|x| *x as u16));
        v.sort_unstable();
        v.dedup();
        v
    })
}

const RESULT_CODES: [u16; 16] = [0, 1, 2, 3, 4, 5, 6, 7, 8, 9, 10, 11, 12, 256, 0x0102, 0xffff];

/// An enumerated field must be judged the same whatever the message around it says: for each of
/// the 14 message types as first AVP - (a) every value of the proxy authen type, (b) every value
/// of a second Message Type AVP, (c) result code x error type over `error_values`, with and
/// without an error message.
fn context_grid_count() -> u64 {
    14 * (65536 + 65536 + (RESULT_CODES.len() * error_values().len() * 2) as u64)
}

fn context_case(ctx: &mut Ctx) {
    let total = context_grid_count();
    let idx = if ctx.tier == Tier::Miri || ctx.tier == Tier::San { ctx.rng.below(total) } else { ctx.idx % total };
    let mt = MESSAGE_TYPES[(idx % 14) as usize].0;
    let rest = idx / 14;
    let (field, rec) = if rest < 65536 {
        let x = rest as u16;
        ("proxy_type", wire::raw_record(29, false, 0, &[(x >> 8) as u8, x as u8], true))
    } else if rest < 131072 {
        let x = (rest - 65536) as u16;
        ("message_type", wire::raw_record(0, false, 0, &[(x >> 8) as u8, x as u8], true))
    } else {
        let k = (rest - 131072) as usize;
        let ev = error_values();
        let e = ev[k % ev.len()];
        let code = RESULT_CODES[(k / ev.len()) % RESULT_CODES.len()];
        let with_msg = (k / ev.len() / RESULT_CODES.len()) % 2 == 1;
        let mut p = vec![(code >> 8) as u8, code as u8, (e >> 8) as u8, e as u8];
        if with_msg {
            p.extend_from_slice(b"try later");
        }
        ("error_type", wire::raw_record(1, false, 0, &p, true))
    };
    let mut body = wire::message_type_record(mt);
    // sometimes other AVPs sit between the message type and the field
    if idx % 5 == 0 {
        body.extend_from_slice(&wire::raw_record(9, false, 0, &[0x12, 0x34], true));
    }
    body.extend_from_slice(&rec);
    let msg = wire::control_around(&body, 1, 2, 3, 4);
    ctx.rep.case(format!("ctx:{}", idx).as_bytes(), true);
    ctx.rep.bucket("context_grid.checked");
    let spec = crate::spec::decode::decode(&msg, SOpts::STRICT);
    let run = exec::decode_msg(&msg, Some(SOpts::STRICT), Rk::Slice);
    let class = match (&spec.result, &run.out) {
        (Ok(a), Out::Ok(b)) if a == b => return,
        (Err(_), Out::Err(_)) => return,
        (Ok(_), Out::Ok(_)) => "value-differs",
        (Ok(_), Out::Err(_)) => "assigned-rejected",
        (Err(_), Out::Ok(_)) => "unassigned-accepted",
        (_, other) => other.class(),
    };
    ctx.violate(
        format!("C16:{}:context-dependent:{}", field, class),
        format!("in a message whose first AVP is Message Type {}, the record {} decodes as {}; the assigned code points do not depend on the message around the field", mt, crate::report::hex(&rec), out_str(&run.out)),
        w_input(&msg, Some(SOpts::STRICT)),
    );
}

fn run(ctx: &mut Ctx) {
    if ctx.stream == "context_grid" {
        context_case(ctx);
        return;
    }
    let x = if ctx.tier == Tier::Miri { ctx.rng.u16b() } else { ctx.idx as u16 };
    match ctx.stream {
        "message_type" => {
            check_code16(ctx, "message_type", 0, x, &MESSAGE_TYPES, vec![(x >> 8) as u8, x as u8], |a| match a.body {
                SBody::U16(c) => Some(c),
                _ => None,
            });
            // also as the first AVP of the message
            let msg = wire::control_around(&wire::message_type_record(x), 1, 2, 3, 4);
            let run = exec::decode_msg(&msg, Some(SOpts::STRICT), Rk::Slice);
            let assigned = message_type_assigned(x);
            if run.out.is_ok() != assigned && !run.out.abnormal() {
                ctx.violate("C16:message_type:first-avp", format!("message whose only AVP is Message Type {}: {}", x, out_str(&run.out)), w_input(&msg, Some(SOpts::STRICT)));
            }
            if let Out::Ok(SMsg::Control(c)) = &run.out {
                injective(ctx, "message_type", format!("{:?}", glue::avp_to_crate(&c.avps[0])), x);
            }
        }
        "error_type" => {
            check_code16(ctx, "error_type", 1, x, &ERROR_TYPES, vec![0, 2, (x >> 8) as u8, x as u8], |a| match &a.body {
                SBody::Result { err: Some((et, _)), .. } => Some(*et),
                _ => None,
            });
            // public conversions
            let conv: Result<rc::ErrorType, _> = rc::ErrorType::try_from(x);
            match (conv, error_type_assigned(x)) {
                (Ok(v), true) => {
                    if u16::from(v) != x || glue::error_type_code(&v) != x {
                        ctx.violate("C16:error_type:conversion", format!("ErrorType::try_from({}) = {:?} which converts back to {} (RFC number of that name: {})", x, v, u16::from(v), glue::error_type_code(&v)), J::obj(vec![("code", J::U(x as u64))]));
                    }
                    injective(ctx, "error_type", format!("{:?}", v), x);
                }
                (Err(_), false) => {}
                (r, a) => ctx.violate("C16:error_type:conversion", format!("ErrorType::try_from({}) = {:?}, assigned = {}", x, r.map(|v| format!("{:?}", v)).map_err(|_| "Err"), a), J::obj(vec![("code", J::U(x as u64))])),
            }
        }
        "proxy_type" => {
            check_code16(ctx, "proxy_type", 29, x, &PROXY_AUTHEN_TYPES, vec![(x >> 8) as u8, x as u8], |a| match a.body {
                SBody::U16(c) => Some(c),
                _ => None,
            });
            let conv: Result<rl2tp::avp::types::ProxyAuthenType, _> = rl2tp::avp::types::ProxyAuthenType::try_from(x);
            match (conv, proxy_type_assigned(x)) {
                (Ok(v), true) => {
                    if u16::from(v) != x || glue::proxy_type_code(&v) != x {
                        ctx.violate("C16:proxy_type:conversion", format!("ProxyAuthenType::try_from({}) = {:?}", x, v), J::obj(vec![("code", J::U(x as u64))]));
                    }
                    injective(ctx, "proxy_type", format!("{:?}", v), x);
                }
                (Err(_), false) => {}
                (r, a) => ctx.violate("C16:proxy_type:conversion", format!("ProxyAuthenType::try_from({}) = {:?}, assigned = {}", x, r.map(|v| format!("{:?}", v)).map_err(|_| "Err"), a), J::obj(vec![("code", J::U(x as u64))])),
            }
        }
        "result_code" => {
            ctx.rep.case(format!("result_code:{}", x).as_bytes(), true);
            ctx.rep.bucket("checked");
            let payload = vec![(x >> 8) as u8, x as u8];
            let (msg, out, cv) = decode_second(1, &payload);
            match &out {
                Out::Ok(SAvp { body: SBody::Result { code, err: None }, .. }) if *code == x => {
                    ctx.rep.bucket("result_code.raw_kept");
                }
                other => {
                    ctx.violate("C16:result_code:raw-not-kept", format!("result code {} decoded as {}", x, out_str(other)), w_input(&msg, Some(SOpts::STRICT)));
                    return;
                }
            }
            let cvv = rc::CodeValue::from(x);
            if u16::from(cvv) != x {
                ctx.violate("C16:result_code:conversion", format!("CodeValue::from({}) converts back to {}", x, u16::from(cvv)), J::obj(vec![("code", J::U(x as u64))]));
            }
            let stop = cvv.as_stop_ccn();
            let cdn = cvv.as_cdn();
            match (&stop, x <= 7) {
                (Ok(v), true) => {
                    ctx.rep.bucket("result_code.stop_ccn.ok");
                    let name = variant_name(v);
                    let want = STOP_CCN_CODES.iter().find(|(c, _)| *c == x).unwrap().1;
                    if name != want || u16::from(rc::CodeValue::from(*v)) != x {
                        ctx.violate("C16:result_code:stop_ccn-name", format!("StopCCN code {} is named {} (RFC: {})", x, name, want), J::obj(vec![("code", J::U(x as u64))]));
                    }
                }
                (Err(_), false) => {}
                _ => ctx.violate("C16:result_code:stop_ccn-range", format!("as_stop_ccn() for {} is {:?}", x, stop.map(|v| format!("{:?}", v))), J::obj(vec![("code", J::U(x as u64))])),
            }
            match (&cdn, x <= 11) {
                (Ok(v), true) => {
                    ctx.rep.bucket("result_code.cdn.ok");
                    let name = variant_name(v);
                    let want = CDN_CODES.iter().find(|(c, _)| *c == x).unwrap().1;
                    if name != want || u16::from(rc::CodeValue::from(*v)) != x {
                        ctx.violate("C16:result_code:cdn-name", format!("CDN code {} is named {} (RFC: {})", x, name, want), J::obj(vec![("code", J::U(x as u64))]));
                    }
                }
                (Err(_), false) => {}
                _ => ctx.violate("C16:result_code:cdn-range", format!("as_cdn() for {} is {:?}", x, cdn.map(|v| format!("{:?}", v))), J::obj(vec![("code", J::U(x as u64))])),
            }
            if let Some(cv) = cv {
                if let exec::EncOut::Ok(e) = exec::encode_avp(&cv, Wk::Vec) {
                    if e.bytes != wire::raw_record(1, false, 0, &payload, true) {
                        ctx.violate("C16:result_code:reencode-differs", format!("result code {} re-encodes to {}", x, crate::report::hex(&e.bytes)), J::obj(vec![("code", J::U(x as u64))]));
                    }
                }
            }
        }
        "attribute_type" => {
            ctx.rep.case(format!("attr:{}", x).as_bytes(), true);
            ctx.rep.bucket("checked");
            let fmt = format_of(x);
            let payload = match fmt {
                Some(f) => wire::valid_payload(&mut ctx.rng, x, min_len(f).max(1) + if matches!(f, Fmt::Empty) { 0 } else { 0 }),
                None => ctx.rng.bytes_range(0, 30),
            };
            let payload = if x == 39 { vec![] } else { payload };
            let (msg, out, cv) = decode_second(x, &payload);
            match (&out, fmt.is_some()) {
                (Out::Ok(a), true) => {
                    ctx.rep.bucket("attribute_type.accepted");
                    if a.attr != x || a.hidden {
                        ctx.violate("C16:attribute_type:wrong-kind", format!("attribute type {} decoded as kind {}", x, a.attr), w_input(&msg, Some(SOpts::STRICT)));
                    }
                    // the crate's variant name must be the RFC name of this number
                    if let Some(cv) = &cv {
                        let name = glue::avp_variant_name(cv);
                        if Some(name.as_str()) != name_of(x) {
                            ctx.violate("C16:attribute_type:wrong-variant", format!("attribute type {} decodes to variant {} (RFC: {:?})", x, name, name_of(x)), w_input(&msg, Some(SOpts::STRICT)));
                        }
                        injective(ctx, "attribute_type", name, x);
                        if let exec::EncOut::Ok(e) = exec::encode_avp(cv, Wk::Vec) {
                            if e.bytes.len() < 6 || e.bytes[4] != (x >> 8) as u8 || e.bytes[5] != x as u8 {
                                ctx.violate("C16:attribute_type:reencode-differs", format!("attribute type {} re-encodes as {}", x, crate::report::hex(&e.bytes[..e.bytes.len().min(8)])), w_input(&msg, Some(SOpts::STRICT)));
                            }
                        }
                    }
                }
                (Out::Err(_), false) => ctx.rep.bucket("attribute_type.rejected"),
                (Out::Ok(a), false) => ctx.violate("C16:attribute_type:unassigned-accepted", format!("unassigned attribute type {} accepted as {:?}", x, a), w_input(&msg, Some(SOpts::STRICT))),
                (Out::Err(e), true) => ctx.violate("C16:attribute_type:assigned-rejected", format!("assigned attribute type {} with a valid payload rejected: {}", x, errs_str(e)), w_input(&msg, Some(SOpts::STRICT))),
                (other, _) => ctx.violate(format!("C16:attribute_type:{}", other.class()), format!("attribute type {}: {}", x, out_str(other)), w_input(&msg, Some(SOpts::STRICT))),
            }
        }
        "deep_position" => {
            // the same field, but the record sits behind thousands of other records in a bare AVP
            // list (longer than any single message can be): position must not matter
            let n = *ctx.rng.pick(&[8_191usize, 8_192, 10_921, 10_922, 10_923, 12_000]);
            let (field, attr, table): (&str, u16, &[(u16, &str)]) = match ctx.idx % 3 {
                0 => ("message_type", 0, &MESSAGE_TYPES),
                1 => ("error_type", 1, &ERROR_TYPES),
                _ => ("proxy_type", 29, &PROXY_AUTHEN_TYPES),
            };
            let x = match ctx.rng.below(3) {
                0 => ctx.rng.pick(table).0,
                1 => *ctx.rng.pick(&[5u16, 13, 17, 9, 6, 20, 255, 65535]),
                _ => ctx.rng.u16b(),
            };
            let payload = if attr == 1 { vec![0, 2, (x >> 8) as u8, x as u8] } else { vec![(x >> 8) as u8, x as u8] };
            let mut list = Vec::with_capacity(n * 6 + 16);
            for _ in 0..n {
                list.extend_from_slice(&[0x01, 0x06, 0, 0, 0, 39]);
            }
            list.extend_from_slice(&wire::raw_record(attr, false, 0, &payload, true));
            ctx.rep.case(format!("deep:{}:{}:{}", field, x, n).as_bytes(), true);
            ctx.rep.bucket("deep_position.checked");
            let assigned = table.iter().any(|(c, _)| *c == x);
            let run = exec::decode_avps(&list, Rk::Slice);
            let wit = J::obj(vec![("field", J::s(field)), ("code", J::U(x as u64)), ("records_in_front", J::U(n as u64)), ("last_record_hex", J::hex(&list[n * 6..]))]);
            match &run.out {
                Out::Ok(l) if l.len() == n + 1 => match (&l[n], assigned) {
                    (Ok(_), true) | (Err(_), false) => {}
                    (got, _) => ctx.violate(format!("C16:{}:position-dependent", field), format!("code {} (assigned: {}) behind {} other records decodes as {:?}", x, assigned, n, got), wit),
                },
                Out::Ok(l) => ctx.violate(format!("C16:{}:position-dependent:record-lost", field), format!("a list of {} records decodes to {} results: the record carrying code {} was never examined", n + 1, l.len(), x), wit),
                other => ctx.violate(format!("C16:{}:deep:{}", field, other.class()), out_str(other), wit),
            }
        }
        "named_values" => {
            // every named variant, enumerated from the RFC tables by name, encodes to its number
            let i = ctx.idx as usize;
            ctx.rep.case(format!("named:{}", i).as_bytes(), true);
            let (field, code, name, encoded): (&str, u16, &str, Option<Vec<u8>>) = if i < 14 {
                let (c, n) = MESSAGE_TYPES[i];
                let v = glue::message_type_from_code(c).unwrap();
                let ok = variant_name(&v) == n;
                ("message_type", c, n, if ok { exec::encode_avp(&rl2tp::avp::AVP::MessageType(v), Wk::Vec).ok().map(|e| e.bytes[6..].to_vec()) } else { None })
            } else if i < 23 {
                let (c, n) = ERROR_TYPES[i - 14];
                let v = glue::error_type_from_code(c).unwrap();
                let ok = variant_name(&v) == n;
                ("error_type", c, n, if ok { Some(u16::from(v).to_be_bytes().to_vec()) } else { None })
            } else if i < 29 {
                let (c, n) = PROXY_AUTHEN_TYPES[i - 23];
                let v = glue::proxy_type_from_code(c).unwrap();
                let ok = variant_name(&v) == n;
                ("proxy_type", c, n, if ok { exec::encode_avp(&rl2tp::avp::AVP::ProxyAuthenType(v), Wk::Vec).ok().map(|e| e.bytes[6..].to_vec()) } else { None })
            } else if i < 37 {
                let (c, n) = STOP_CCN_CODES[i - 29];
                let v = rc::StopCcnCode::try_from(c).ok();
                let ok = v.map(|v| variant_name(&v) == n).unwrap_or(false);
                ("stop_ccn", c, n, if ok { Some(u16::from(rc::CodeValue::from(v.unwrap())).to_be_bytes().to_vec()) } else { None })
            } else {
                let (c, n) = CDN_CODES[i - 37];
                let v = rc::CdnCode::try_from(c).ok();
                let ok = v.map(|v| variant_name(&v) == n).unwrap_or(false);
                ("cdn", c, n, if ok { Some(u16::from(rc::CodeValue::from(v.unwrap())).to_be_bytes().to_vec()) } else { None })
            };
            ctx.rep.bucket("named.checked");
            // a result code built from one family's named value must convert to the other family
            // exactly when its number is assigned there
            if field == "stop_ccn" || field == "cdn" {
                let cv = if field == "stop_ccn" { rc::StopCcnCode::try_from(code).ok().map(rc::CodeValue::from) } else { rc::CdnCode::try_from(code).ok().map(rc::CodeValue::from) };
                if let Some(cv) = cv {
                    let s_ok = cv.as_stop_ccn().map(|v| variant_name(&v));
                    let c_ok = cv.as_cdn().map(|v| variant_name(&v));
                    let want_s = STOP_CCN_CODES.iter().find(|(c, _)| *c == code).map(|(_, n)| n.to_string());
                    let want_c = CDN_CODES.iter().find(|(c, _)| *c == code).map(|(_, n)| n.to_string());
                    if s_ok.clone().ok() != want_s || c_ok.clone().ok() != want_c {
                        ctx.violate(
                            format!("C16:result_code:named-cross-family:{}", field),
                            format!("result code built from the {} value {} (number {}): as_stop_ccn() = {:?} (expected {:?}), as_cdn() = {:?} (expected {:?})", field, name, code, s_ok, want_s, c_ok, want_c),
                            J::obj(vec![("name", J::s(name)), ("rfc_number", J::U(code as u64))]),
                        );
                    }
                    ctx.rep.bucket("named.cross_family");
                }
            }
            if encoded != Some(code.to_be_bytes().to_vec()) {
                ctx.violate(format!("C16:{}:named-value-number", field), format!("named value {} should encode to RFC number {}, got {:?}", name, code, encoded), J::obj(vec![("name", J::s(name)), ("rfc_number", J::U(code as u64))]));
            }
            ctx.rep.sample(|| J::obj(vec![("field", J::s(field)), ("name", J::s(name)), ("rfc_number", J::U(code as u64))]));
        }
        _ => unreachable!(),
    }
    if ctx.idx % 9001 == 0 {
        let s = ctx.stream;
        ctx.rep.sample(|| J::obj(vec![("field", J::s(s)), ("code_point", J::U(x as u64))]));
    }
}
