//! C17 Bitmask AVPs: accessors return the constructor's arguments; all 32 bits survive.

use super::*;
use crate::exec::{self, Wk};
use crate::glue;
use crate::report::J;
use rl2tp::avp::types as t;
use rl2tp::avp::AVP;
use rl2tp::common::SliceReader;

pub fn def() -> PropDef {
    PropDef {
        id: "C17",
        num: 17,
        streams,
        run,
        floors,
        rule: "constructors: 4 kinds x all 4 boolean pairs; the accessor named after the first (second) constructor parameter must return the first (second) argument, and the word must have exactly the corresponding bits (6 / 7) set. Wire words: per kind, all single-bit, two-bit and complement patterns plus random words (every value of the low 16 bits over random high halves; thorough: ALL 2^32 words of every kind in a tight loop, blocks of 2^20); decode through the per-type decoder and through a control message, re-encode, compare all 32 bits, and check each accessor against its own bit only. Distinct = distinct (kind, word); non-trivial = all. For a sample of words also: clone, hide->reveal, a window writer at positions >= 2^16.",
    }
}

fn streams(t: Tier) -> Vec<StreamDef> {
    vec![
        st("constructors", 16, true),
        st("patterns", t.n(4 * 562, 4 * 562, 60, 4 * 562), t != Tier::Miri),
        st("random_words", t.n(400_000, 40_000_000, 200, 100_000), false),
        st("low16_sweep", t.n(4 * 65536, 4 * 65536, 0, 4 * 65536), true),
        // thorough only: every one of the 2^32 words of every kind, in blocks of 2^20
        st("full_sweep", t.n(0, 4 * 4096, 0, 0), true),
    ]
}

fn floors(t: Tier) -> Vec<(String, u64)> {
    if t == Tier::Miri {
        return vec![("constructor.checked".into(), 16)];
    }
    let mut extra: Vec<(String, u64)> = vec![];
    if t == Tier::Thorough {
        extra.push(("full_sweep.words".into(), 4 * (1u64 << 32)));
    }
    let mut f: Vec<(String, u64)> = vec![("constructor.checked".into(), 16), ("word.roundtrip".into(), 300_000), ("accessor.first.true".into(), 10_000), ("accessor.first.false".into(), 10_000), ("accessor.second.true".into(), 10_000), ("accessor.second.false".into(), 10_000), ("via_message".into(), 1000), ("via_hide_reveal".into(), 1000)];
    f.extend(extra);
    f
}

const KINDS: [(&str, u16, &str, &str); 4] = [
    ("FramingCapabilities", 3, "async_framing_supported", "sync_framing_supported"),
    ("BearerCapabilities", 4, "digital_access_supported", "analog_access_supported"),
    ("BearerType", 18, "analog_request", "digital_request"),
    ("FramingType", 19, "analog_request", "digital_request"),
];

/// (word, accessor named after the constructor's first parameter, accessor named after the second)
fn construct(kind: usize, x: bool, y: bool) -> (u32, bool, bool, AVP) {
    match kind {
        0 => {
            let v = t::FramingCapabilities::new(x, y);
            (glue::bitmask_word_avp(&AVP::FramingCapabilities(v)), v.is_async_framing_supported(), v.is_sync_framing_supported(), AVP::FramingCapabilities(v))
        }
        1 => {
            // new(digital_access_supported, analog_access_supported)
            let v = t::BearerCapabilities::new(x, y);
            (glue::bitmask_word_avp(&AVP::BearerCapabilities(v)), v.is_digital_access_supported(), v.is_analog_access_supported(), AVP::BearerCapabilities(v))
        }
        2 => {
            let v = t::BearerType::new(x, y);
            (glue::bitmask_word_avp(&AVP::BearerType(v)), v.is_analog_request(), v.is_digital_request(), AVP::BearerType(v))
        }
        _ => {
            let v = t::FramingType::new(x, y);
            (glue::bitmask_word_avp(&AVP::FramingType(v)), v.is_analog_request(), v.is_digital_request(), AVP::FramingType(v))
        }
    }
}

/// decode a wire word; returns (internal word, accessor of bit 6, accessor of bit 7, value)
fn from_wire(kind: usize, w: u32) -> Option<(u32, bool, bool, AVP)> {
    let b = w.to_be_bytes();
    let mut r = SliceReader::from(&b);
    Some(match kind {
        0 => {
            let v = t::FramingCapabilities::try_read(&mut r).ok()?;
            (glue::bitmask_word_avp(&AVP::FramingCapabilities(v)), v.is_async_framing_supported(), v.is_sync_framing_supported(), AVP::FramingCapabilities(v))
        }
        1 => {
            // RFC 2661 4.4.3: A (analog) is the first-listed flag = bit 6, D (digital) = bit 7
            let v = t::BearerCapabilities::try_read(&mut r).ok()?;
            (glue::bitmask_word_avp(&AVP::BearerCapabilities(v)), v.is_analog_access_supported(), v.is_digital_access_supported(), AVP::BearerCapabilities(v))
        }
        2 => {
            let v = t::BearerType::try_read(&mut r).ok()?;
            (glue::bitmask_word_avp(&AVP::BearerType(v)), v.is_analog_request(), v.is_digital_request(), AVP::BearerType(v))
        }
        _ => {
            let v = t::FramingType::try_read(&mut r).ok()?;
            (glue::bitmask_word_avp(&AVP::FramingType(v)), v.is_analog_request(), v.is_digital_request(), AVP::FramingType(v))
        }
    })
}

fn judge_word(ctx: &mut Ctx, kind: usize, w: u32, via_message: bool) {
    let (name, attr, _, _) = KINDS[kind];
    let mut key = vec![kind as u8];
    key.extend_from_slice(&w.to_be_bytes());
    ctx.rep.case(&key, true);
    let wit = J::obj(vec![("kind", J::s(name)), ("wire_word", J::s(format!("{:#010x}", w)))]);
    let (internal, a6, a7, v) = match from_wire(kind, w) {
        Some(x) => x,
        None => {
            ctx.violate(format!("C17:{}:decode-failed", name), "per-type decoder rejected a 4-octet payload", wit);
            return;
        }
    };
    let _ = internal;
    // encode(decode(w)) = w, all 32 bits
    match exec::encode_avp(&v, Wk::Vec) {
        exec::EncOut::Ok(e) => {
            let want = crate::gen::wire::raw_record(attr, false, 0, &w.to_be_bytes(), true);
            if e.bytes != want {
                let got = if e.bytes.len() >= 10 { u32::from_be_bytes([e.bytes[6], e.bytes[7], e.bytes[8], e.bytes[9]]) } else { 0 };
                ctx.violate(format!("C17:{}:bits-lost", name), format!("wire word {:#010x} re-encodes as {:#010x} (changed bits {:#010x})", w, got, w ^ got), wit.clone());
            } else {
                ctx.rep.bucket("word.roundtrip");
            }
        }
        exec::EncOut::Panic(p) => ctx.violate(format!("C17:{}:encode-panic", name), p.message, wit.clone()),
    }
    // accessors reflect only their own bit
    let b6 = (w >> 6) & 1 == 1;
    let b7 = (w >> 7) & 1 == 1;
    ctx.rep.bucket(if a6 { "accessor.first.true" } else { "accessor.first.false" });
    ctx.rep.bucket(if a7 { "accessor.second.true" } else { "accessor.second.false" });
    if a6 != b6 {
        ctx.violate(format!("C17:{}:accessor-bit6", name), format!("the accessor of bit 6 returns {} for wire word {:#010x} (bit 6 is {})", a6, w, b6), wit.clone());
    }
    if a7 != b7 {
        ctx.violate(format!("C17:{}:accessor-bit7", name), format!("the accessor of bit 7 returns {} for wire word {:#010x} (bit 7 is {})", a7, w, b7), wit.clone());
    }
    if via_message {
        // Clone / PartialEq must carry the whole word: the clone re-encodes to the same octets
        // and compares equal; a value with a different word compares unequal
        let c = v.clone();
        let same = matches!((exec::encode_avp(&c, Wk::Vec), exec::encode_avp(&v, Wk::Vec)), (exec::EncOut::Ok(a), exec::EncOut::Ok(b)) if a.bytes == b.bytes);
        if !same {
            ctx.violate(format!("C17:{}:clone-differs", name), format!("clone of the value decoded from {:#010x} is not the same value", w), wit.clone());
        }
        // position independence of the encoding: behind 64 KiB+ of earlier output and through a
        // window writer the same 10 octets must come out
        {
            let want = crate::gen::wire::raw_record(attr, false, 0, &w.to_be_bytes(), true);
            let base = *ctx.rng.pick(&[65_536usize, 70_000, 0x1_0000_0000]);
            match exec::encode_avp(&v, Wk::OffsetLenient(base)) {
                exec::EncOut::Ok(e) if e.bytes == want => ctx.rep.bucket("via_window_writer"),
                exec::EncOut::Ok(e) => ctx.violate(format!("C17:{}:bits-lost:behind-earlier-output", name), format!("wire word {:#010x} re-encodes as {} when the writer already holds {} octets", w, crate::report::hex(&e.bytes), base), wit.clone()),
                exec::EncOut::Panic(p) => ctx.violate(format!("C17:{}:encode-panic:behind-earlier-output", name), format!("re-encoding {:#010x} into a writer that already holds {} octets panicked: {}", w, base, p.message), wit.clone()),
            }
        }
        // through hide -> wire -> reveal
        {
            let secret = b"bitmask";
            let rv = [9u8, 8, 7, 6];
            if let Ok(h) = exec::hide(v.clone(), secret, rv, &[0x55; 3], &[0xaa; 16]) {
                match exec::reveal(h, secret, rv) {
                    exec::Out::Ok(a) if a.attr == attr && a.body == crate::spec::model::SBody::U32(w) => ctx.rep.bucket("via_hide_reveal"),
                    other => ctx.violate(format!("C17:{}:via-hide-reveal", name), format!("word {:#010x} after hide -> reveal is {}", w, super::common::out_str(&other)), wit.clone()),
                }
            }
        }
        // same through a whole control message
        let mut body = crate::gen::wire::message_type_record(1);
        body.extend_from_slice(&crate::gen::wire::raw_record(attr, false, 0, &w.to_be_bytes(), true));
        let msg = crate::gen::wire::control_around(&body, 1, 1, 0, 0);
        let run = exec::decode_msg(&msg, Some(crate::spec::model::SOpts::STRICT), exec::Rk::Slice);
        match &run.out {
            exec::Out::Ok(crate::spec::model::SMsg::Control(c)) if c.avps.len() == 2 && c.avps[1].body == crate::spec::model::SBody::U32(w) && c.avps[1].attr == attr => ctx.rep.bucket("via_message"),
            other => ctx.violate(format!("C17:{}:via-message", name), format!("word {:#010x} inside a control message decodes as {}", w, super::common::out_str(other)), wit.clone()),
        }
        // the word followed by surplus payload octets (which the decoder ignores): all 32 bits
        // must still arrive, through the bare AVP list and through a whole message
        {
            let extra = *ctx.rng.pick(&[1usize, 2, 4, 12, 251, 1013]);
            let mut payload = w.to_be_bytes().to_vec();
            let fill = ctx.rng.bytes(extra);
            payload.extend_from_slice(&fill);
            let rec = crate::gen::wire::raw_record(attr, false, 0, &payload, true);
            let got_list = match exec::decode_avps(&rec, exec::Rk::Slice).out {
                exec::Out::Ok(l) => l.into_iter().next().and_then(|r| r.ok()),
                _ => None,
            };
            let mut body = crate::gen::wire::message_type_record(1);
            body.extend_from_slice(&rec);
            let msg = crate::gen::wire::control_around(&body, 1, 1, 0, 0);
            let got_msg = match exec::decode_msg(&msg, Some(crate::spec::model::SOpts::STRICT), exec::Rk::Slice).out {
                exec::Out::Ok(crate::spec::model::SMsg::Control(c)) if c.avps.len() == 2 => Some(c.avps[1].clone()),
                _ => None,
            };
            for (how, got) in [("bare AVP list", got_list), ("control message", got_msg)] {
                match got {
                    Some(a) if a.attr == attr && a.body == crate::spec::model::SBody::U32(w) => ctx.rep.bucket("via_surplus_payload"),
                    other => ctx.violate(
                        format!("C17:{}:bits-lost:surplus-payload", name),
                        format!("wire word {:#010x} followed by {} surplus payload octets decodes through the {} as {:?}", w, extra, how, other),
                        wit.clone(),
                    ),
                }
            }
        }
    }
}

/// Tight loop over `n` consecutive words starting at `base`: decode through the per-type decoder,
/// check both accessors against bits 6 / 7 and re-encode into a reused writer. Returns the first
/// word that misbehaves (it is then re-judged by `judge_word` for a full report).
fn sweep_block(kind: usize, base: u32, n: u32) -> Option<u32> {
    use rl2tp::common::{VecWriter, Writer};
    let attr = KINDS[kind].1 as u8;
    let mut wr = VecWriter::new();
    let mut w = base;
    for _ in 0..n {
        let b = w.to_be_bytes();
        let mut r = SliceReader::from(&b);
        let (a6, a7, avp) = match kind {
            0 => match t::FramingCapabilities::try_read(&mut r) {
                Ok(v) => (v.is_async_framing_supported(), v.is_sync_framing_supported(), AVP::FramingCapabilities(v)),
                Err(_) => return Some(w),
            },
            1 => match t::BearerCapabilities::try_read(&mut r) {
                Ok(v) => (v.is_analog_access_supported(), v.is_digital_access_supported(), AVP::BearerCapabilities(v)),
                Err(_) => return Some(w),
            },
            2 => match t::BearerType::try_read(&mut r) {
                Ok(v) => (v.is_analog_request(), v.is_digital_request(), AVP::BearerType(v)),
                Err(_) => return Some(w),
            },
            _ => match t::FramingType::try_read(&mut r) {
                Ok(v) => (v.is_analog_request(), v.is_digital_request(), AVP::FramingType(v)),
                Err(_) => return Some(w),
            },
        };
        if a6 != ((w >> 6) & 1 == 1) || a7 != ((w >> 7) & 1 == 1) {
            return Some(w);
        }
        wr.data.clear();
        avp.write(&mut wr);
        let d = &wr.data;
        if d.len() != 10 || d[0] != 0x01 || d[1] != 10 || d[2] != 0 || d[3] != 0 || d[4] != 0 || d[5] != attr || d[6..10] != b {
            return Some(w);
        }
        let _ = wr.len();
        w = w.wrapping_add(1);
    }
    None
}

fn pattern(i: u64) -> u32 {
    // 32 single bits, 496 pairs, 32 complements of single bits, 0, !0
    let i = i as usize;
    if i < 32 {
        1 << i
    } else if i < 32 + 496 {
        let mut k = i - 32;
        for a in 0..32u32 {
            for b in (a + 1)..32 {
                if k == 0 {
                    return (1 << a) | (1 << b);
                }
                k -= 1;
            }
        }
        0
    } else if i < 32 + 496 + 32 {
        !(1u32 << (i - 528))
    } else if i == 560 {
        0
    } else {
        !0
    }
}

fn run(ctx: &mut Ctx) {
    match ctx.stream {
        "constructors" => {
            let kind = (ctx.idx / 4) as usize;
            let x = ctx.idx & 1 != 0;
            let y = ctx.idx & 2 != 0;
            let (name, _, p1, p2) = KINDS[kind];
            ctx.rep.case(&[kind as u8, x as u8, y as u8], true);
            let (word, first, second, v) = construct(kind, x, y);
            ctx.rep.bucket("constructor.checked");
            let wit = J::obj(vec![("call", J::s(format!("{}::new({}: {}, {}: {})", name, p1, x, p2, y))), ("word", J::s(format!("{:#010x}", word)))]);
            if first != x {
                ctx.violate(format!("C17:{}:constructor-first-argument", name), format!("{}::new({}={}, {}={}) reports {} = {}", name, p1, x, p2, y, p1, first), wit.clone());
            }
            if second != y {
                ctx.violate(format!("C17:{}:constructor-second-argument", name), format!("{}::new({}={}, {}={}) reports {} = {}", name, p1, x, p2, y, p2, second), wit.clone());
            }
            if word & !0xc0 != 0 {
                ctx.violate(format!("C17:{}:constructor-stray-bits", name), format!("constructor set bits outside 6/7: {:#010x}", word), wit.clone());
            }
            // the encoded word carries the same two flags when read back
            if let exec::EncOut::Ok(e) = exec::encode_avp(&v, Wk::Vec) {
                if e.bytes.len() == 10 {
                    let w = u32::from_be_bytes([e.bytes[6], e.bytes[7], e.bytes[8], e.bytes[9]]);
                    if w != word {
                        ctx.violate(format!("C17:{}:constructor-encoding", name), format!("constructed word {:#010x} is encoded as {:#010x}", word, w), wit.clone());
                    }
                }
            }
            ctx.rep.sample(|| wit.clone());
        }
        "patterns" => {
            let kind = (ctx.idx % 4) as usize;
            let w = pattern(ctx.idx / 4);
            judge_word(ctx, kind, w, true);
        }
        "random_words" => {
            let kind = (ctx.idx % 4) as usize;
            let w = ctx.rng.next() as u32;
            let via = ctx.idx % 64 == 0;
            judge_word(ctx, kind, w, via);
            if ctx.idx % 50_000 == 0 {
                ctx.rep.sample(|| J::obj(vec![("kind", J::s(KINDS[kind].0)), ("wire_word", J::s(format!("{:#010x}", w)))]));
            }
        }
        "full_sweep" => {
            let kind = (ctx.idx % 4) as usize;
            let block = (ctx.idx / 4) as u32; // 0..4096
            let base = block << 20;
            ctx.rep.case(&[b'S', kind as u8, (block >> 8) as u8, block as u8], true);
            let res = crate::monitor::panic::catch(|| sweep_block(kind, base, 1 << 20));
            match res {
                crate::monitor::panic::Ended::Returned(None) => {
                    ctx.rep.bucket_n("full_sweep.words", 1 << 20);
                    ctx.rep.bucket("full_sweep.blocks");
                    // the words of a block count as evaluations (each was decoded, queried and re-encoded)
                    ctx.rep.evaluations += (1 << 20) - 1;
                }
                crate::monitor::panic::Ended::Returned(Some(w)) => judge_word(ctx, kind, w, false),
                crate::monitor::panic::Ended::Panicked(p) => {
                    ctx.violate(format!("C17:{}:sweep-panic:{}", KINDS[kind].0, p.class()), format!("panic while sweeping words {:#010x}..: {}", base, p.message), J::obj(vec![("kind", J::s(KINDS[kind].0)), ("block_base", J::s(format!("{:#010x}", base)))]));
                }
                _ => unreachable!(),
            }
            if ctx.idx % 4000 == 0 {
                ctx.rep.sample(|| J::obj(vec![("kind", J::s(KINDS[kind].0)), ("swept_words", J::s(format!("{:#010x}..={:#010x}", base, base | 0xfffff)))]));
            }
        }
        "low16_sweep" => {
            let kind = (ctx.idx % 4) as usize;
            let low = (ctx.idx / 4) as u32 & 0xffff;
            let high = (ctx.rng.next() as u32) & 0xffff0000;
            judge_word(ctx, kind, high | low, false);
        }
        _ => unreachable!(),
    }
}
