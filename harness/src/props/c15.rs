//! C15 Control messages: all-or-nothing acceptance and a complete, ordered error list.

use super::common::*;
use super::*;
use crate::exec::{self, Out, Rk};
use crate::gen::{val, wire};
use crate::glue;
use crate::report::J;
use crate::spec::encode as senc;
use crate::spec::model::*;
use crate::spec::tables::*;

pub fn def() -> PropDef {
    PropDef {
        id: "C15",
        num: 15,
        streams,
        run,
        floors,
        rule: "fault injection: a control message is built from k AVP records, a chosen subset made individually undecodable by one named fault each (truncated payload, bad UTF-8, unassigned attribute, unknown message-type code at a non-first position, bad error type, vendor id != 0, bad proxy authen type) or given an unusable length (< 6, or past the body). Every placement of every fault kind for k <= 4 is enumerated, k <= 8 sampled. Expected: Ok(all k values in order) iff no fault and the first record is a Message Type; otherwise Err(non-empty); with a valid Message Type first the list has exactly one error per faulty record up to and including the first unusable length, each of the expected class, in wire order. Distinct = distinct messages; non-trivial = at least one fault or k >= 2. Also: 4095..10900 minimal records in front of the faulty ones; 40..80 records decoded from a slow transport (2.5 s of wall-clock time per decode in quick, up to 31 s in thorough) must give the same verdict and error list.",
    }
}

const N_FAULTS: u64 = 9;

fn streams(t: Tier) -> Vec<StreamDef> {
    // enumerated: k in 1..=4, fault kind per position in 0..=N_FAULTS (0 = none) -> (N+1)^4 * 4 upper bound
    vec![st("enumerated", t.n(50_000, 50_000, 100, 50_000), true), st("sampled", t.n(40_000, 2_000_000, 60, 10_000), false), st("first_not_type", t.n(5_000, 200_000, 30, 2_000), false), st("many_records", t.n(96, 2000, 0, 96), false), st("fault_counts", t.n(64, 1200, 0, 64), false), st("slow_reader", t.n(16, 64, 0, 16), false)]
}

fn floors(t: Tier) -> Vec<(String, u64)> {
    if t == Tier::Miri {
        return vec![("judged".into(), 50)];
    }
    let mut f: Vec<(String, u64)> = vec![("judged".into(), 30_000), ("expected.ok".into(), 1000), ("expected.err".into(), 20_000), ("errors.matched".into(), 30_000), ("multi_error_lists".into(), 5_000), ("zlb".into(), 10), ("stop_at_unusable_length".into(), 2000), ("many_records".into(), 50), ("fault_counts".into(), 30), ("slow_reader.compared".into(), 8), ("reentrant_reader.compared".into(), 10_000)];
    for k in 1..=N_FAULTS {
        f.push((format!("fault.{}", k), 500));
    }
    f
}

#[derive(Clone, Debug)]
struct Rec {
    bytes: Vec<u8>,
    /// expected error class when faulty; None = decodes
    expect: Option<SErr>,
    /// value when good
    value: Option<SAvp>,
    /// parsing cannot continue past this record
    stops: bool,
    /// length that would run past the body: only valid as the last record
    fault: u64,
}

fn good(r: &mut crate::gen::Rng, first: bool) -> Rec {
    let a = if first { val::avp_of(r, 0, 8) } else { val::any_avp(r, 40) };
    Rec { bytes: senc::avp(&a).unwrap(), expect: None, value: Some(a), stops: false, fault: 0 }
}

/// Build a faulty record of kind `f` (1..=N_FAULTS). `remaining_after` is irrelevant except for
/// the overlong-length fault, which is made to overshoot whatever follows.
fn faulty(r: &mut crate::gen::Rng, f: u64) -> Rec {
    match f {
        1 => {
            // truncated payload of a kind with a minimum size
            let attr = *r.pick(&[0u16, 1, 2, 3, 4, 5, 6, 9, 10, 12, 13, 14, 15, 16, 17, 18, 19, 24, 25, 32, 34, 35, 36, 38, 7, 8, 11, 21, 37]);
            let min = min_len(format_of(attr).unwrap());
            let n = r.below(min as u64) as usize;
            Rec { bytes: wire::raw_record(attr, false, 0, &r.bytes(n), r.bool()), expect: Some(SErr::Incomplete(attr)), value: None, stops: false, fault: f }
        }
        2 => {
            let attr = *r.pick(&[8u16, 21, 22, 23]);
            let mut p = val::utf8_exact(r, r.clone().range(0, 12) as usize).into_bytes();
            let bad: &[u8] = *r.pick(&[&[0xffu8][..], &[0xc0, 0x80], &[0xe2, 0x82], &[0xed, 0xa0, 0x80]]);
            let at = r.below(p.len() as u64 + 1) as usize;
            for (i, x) in bad.iter().enumerate() {
                p.insert(at + i, *x);
            }
            Rec { bytes: wire::raw_record(attr, false, 0, &p, true), expect: Some(SErr::BadUtf8(attr)), value: None, stops: false, fault: f }
        }
        3 => {
            let attr = match r.below(4) {
                0 => 20,
                1 => 40,
                2 => r.range(40, 300) as u16,
                _ => r.range(40, 65535) as u16,
            };
            Rec { bytes: wire::raw_record(attr, false, 0, &r.bytes_range(0, 12), true), expect: Some(SErr::UnknownAvp(attr)), value: None, stops: false, fault: f }
        }
        4 => {
            // unknown message-type code (placed by the caller at a non-first position)
            let code = *r.pick(&[0u16, 5, 13, 17, 18, 255, 256, 65535]);
            Rec { bytes: wire::raw_record(0, false, 0, &[(code >> 8) as u8, code as u8], true), expect: Some(SErr::UnknownMessageType(code)), value: None, stops: false, fault: f }
        }
        5 => {
            let et = *r.pick(&[9u16, 10, 255, 256, 65535]);
            let mut p = vec![0, 2, (et >> 8) as u8, et as u8];
            if r.bool() {
                p.extend_from_slice(b"oops");
            }
            Rec { bytes: wire::raw_record(1, false, 0, &p, true), expect: Some(SErr::BadErrorType(et)), value: None, stops: false, fault: f }
        }
        6 => {
            let vendor = if r.bool() { r.range(1, 10) as u16 } else { r.u16b().max(1) };
            let attr = r.range(0, 45) as u16;
            let hidden = r.chance(1, 4);
            let vendor = if r.chance(1, 4) { *r.pick(&[9u16, 311, 43, 529]) } else { vendor };
            let mandatory = r.bool();
            Rec { bytes: wire::raw_record(attr, hidden, vendor, &r.bytes_range(0, 20), mandatory), expect: Some(SErr::Vendor(vendor)), value: None, stops: false, fault: f }
        }
        7 => {
            let c = *r.pick(&[6u16, 7, 255, 65535]);
            Rec { bytes: wire::raw_record(29, false, 0, &[(c >> 8) as u8, c as u8], true), expect: Some(SErr::BadProxyType(c)), value: None, stops: false, fault: f }
        }
        8 => {
            // length field below the header size: unusable, parsing stops
            let len = r.below(6) as u8;
            if r.chance(1, 4) {
                // degenerate fill: an all-zero header (flags 0, length 0, vendor 0, attribute 0) with
                // nothing but zero octets behind it - what padding, a cleared buffer or a short
                // read looks like; it is an AVP with an unusable length like any other
                let n = *r.pick(&[6usize, 7, 8, 12, 16, 30, 64]);
                return Rec { bytes: vec![0u8; n], expect: Some(SErr::AvpLength(0)), value: None, stops: true, fault: f };
            }
            let mut b = wire::raw_record(r.range(0, 39) as u16, false, 0, &r.bytes_range(0, 10), true);
            b[0] &= 0x3f;
            b[1] = len;
            Rec { bytes: b, expect: Some(SErr::AvpLength(len as u16)), value: None, stops: true, fault: f }
        }
        _ => {
            // length field reaching past everything that follows (fixed up by the caller)
            let b = wire::raw_record(r.range(0, 39) as u16, false, 0, &r.bytes_range(0, 10), true);
            Rec { bytes: b, expect: Some(SErr::AvpLength(0)), value: None, stops: true, fault: 9 }
        }
    }
}

fn same_class(want: &SErr, got: &rl2tp::common::DecodeError) -> bool {
    let g = glue::classify(got);
    match (want, &g) {
        // the reported number of an unusable length is not specified by the property
        (SErr::AvpLength(_), Some(SErr::AvpLength(_))) => true,
        // the crate has no dedicated variant for a bad proxy authen type: any error will do
        (SErr::BadProxyType(_), _) => true,
        (w, Some(g)) => w == g,
        _ => false,
    }
}

fn judge(ctx: &mut Ctx, mut recs: Vec<Rec>) {
    // make an overlong length overshoot what follows it
    let n = recs.len();
    for i in 0..n {
        if recs[i].fault == 9 {
            let following: usize = recs[i + 1..].iter().map(|r| r.bytes.len()).sum();
            let claim = (recs[i].bytes.len() + following + 1 + (ctx.rng.below(20) as usize)).min(1023);
            if claim <= recs[i].bytes.len() + following {
                // cannot overshoot within 10 bits: turn it into a short length instead
                recs[i].bytes[0] &= 0x3f;
                recs[i].bytes[1] = 3;
                recs[i].fault = 8;
                continue;
            }
            let b = &mut recs[i].bytes;
            b[0] = (b[0] & 0x3f) | (((claim >> 8) & 3) as u8) << 6;
            b[1] = claim as u8;
        }
    }
    let body: Vec<u8> = recs.iter().flat_map(|r| r.bytes.iter().cloned()).collect();
    if body.len() + 12 > 65535 {
        return;
    }
    let msg = wire::control_around(&body, ctx.rng.u16b(), ctx.rng.u16b(), ctx.rng.u16b(), ctx.rng.u16b());
    let any_fault = recs.iter().any(|r| r.expect.is_some());
    ctx.rep.case(&msg, any_fault || recs.len() >= 2);
    ctx.rep.bucket("judged");
    for r in recs.iter() {
        if r.fault > 0 {
            ctx.rep.bucket(&format!("fault.{}", r.fault));
        }
    }
    if recs.is_empty() {
        ctx.rep.bucket("zlb");
    }
    let first_is_type = recs.first().map(|r| matches!(&r.value, Some(SAvp { attr: 0, hidden: false, .. }))).unwrap_or(true);
    // expected error list: faulty records up to and including the first that stops parsing
    let mut expected: Vec<SErr> = Vec::new();
    let mut stopped = false;
    for r in recs.iter() {
        if let Some(e) = &r.expect {
            expected.push(e.clone());
            if r.stops {
                stopped = true;
                break;
            }
        }
    }
    if stopped {
        ctx.rep.bucket("stop_at_unusable_length");
    }
    let wit = J::obj(vec![
        ("input_hex", J::hex(&msg[..msg.len().min(600)])),
        ("input_octets", J::U(msg.len() as u64)),
        ("record_count", J::U(recs.len() as u64)),
        ("records", J::A(recs.iter().rev().take(12).rev().map(|r| J::obj(vec![("hex", J::hex(&r.bytes)), ("fault", J::U(r.fault)), ("expected", J::s(format!("{:?}", r.expect)))])).collect())),
    ]);
    // the same message through a reader that performs a nested decode on its n-th call must give
    // the very same verdict and error list
    if msg.len() < 4096 {
        let base = exec::decode_msg(&msg, Some(SOpts::STRICT), Rk::Slice);
        let trigger = 1 + ctx.rng.below(12 + 3 * recs.len() as u64);
        let re = exec::decode_msg(&msg, Some(SOpts::STRICT), Rk::Reentrant(trigger));
        ctx.rep.bucket("reentrant_reader.compared");
        if !same_out(&base.out, &re.out) && !base.out.abnormal() {
            ctx.violate(
                "C15:result-changes-with-nested-decode",
                format!("decoded through a reader that decodes another message on its call #{}, the result is {} instead of {}", trigger, out_str(&re.out), out_str(&base.out)),
                wit.clone(),
            );
            return;
        }
    }
    // the same message through a reader on a slow transport (the decode takes seconds of wall-clock
    // time): same verdict, same error list
    if ctx.stream == "slow_reader" {
        let base = exec::decode_msg(&msg, Some(SOpts::STRICT), Rk::Slice);
        let total_us: u64 = if ctx.tier == Tier::Thorough { *ctx.rng.pick(&[2_500_000u64, 6_000_000, 12_000_000, 31_000_000]) } else { 2_500_000 };
        // about two delayed calls per record (its payload window, and bytes() for variable kinds)
        let per_call = total_us / (2 * recs.len() as u64 + 2);
        let t0 = std::time::Instant::now();
        let slow = exec::decode_msg(&msg, Some(SOpts::STRICT), Rk::Slow(per_call));
        let took = t0.elapsed().as_secs_f64();
        ctx.rep.bucket("slow_reader.compared");
        ctx.rep.bucket(if took >= 30.0 { "slow_reader.took_ge_30s" } else if took >= 10.0 { "slow_reader.took_ge_10s" } else if took >= 5.0 { "slow_reader.took_ge_5s" } else if took >= 2.0 { "slow_reader.took_ge_2s" } else { "slow_reader.took_lt_2s" });
        if !same_out(&base.out, &slow.out) && !base.out.abnormal() {
            ctx.violate(
                format!("C15:result-changes-with-slow-reader:{}-vs-{}", slow.out.class(), base.out.class()),
                format!("decoded through a reader whose calls take {} us each ({:.1} s in all), the result is {} instead of {}", per_call, took, out_str(&slow.out), out_str(&base.out)),
                wit.clone(),
            );
            return;
        }
    }
    for o in [SOpts::STRICT, SOpts::NONE] {
        let run = exec::decode_msg(&msg, Some(o), Rk::Slice);
        match &run.out {
            Out::Panic(p) => {
                ctx.violate(format!("C15:panic:{}", p.class()), format!("decoding panicked: {}", p.message), wit.clone());
                return;
            }
            Out::Budget => return,
            Out::Ok(SMsg::Control(c)) => {
                if any_fault || !first_is_type {
                    ctx.violate(
                        format!("C15:accepted-despite-fault:{}", recs.iter().find(|r| r.fault > 0).map(|r| r.fault).unwrap_or(0)),
                        format!("message with an undecodable AVP record (or without a leading Message Type) was accepted: {:?}", c),
                        wit.clone(),
                    );
                    return;
                }
                let want: Vec<SAvp> = recs.iter().map(|r| r.value.clone().unwrap()).collect();
                if c.avps != want {
                    ctx.violate("C15:accepted-values-differ", format!("accepted, but AVPs are {:?} instead of {:?}", c.avps, want), wit.clone());
                    return;
                }
                ctx.rep.bucket("expected.ok");
            }
            Out::Ok(other) => {
                ctx.violate("C15:not-a-control-message", format!("decoded as {:?}", other), wit.clone());
                return;
            }
            Out::Err(e) => {
                if !any_fault && first_is_type {
                    ctx.violate(format!("C15:rejected-without-fault:{}", super::c05::first_err_name(e)), format!("every record decodes and the first is a Message Type, yet the message was rejected: {}", errs_str(e)), wit.clone());
                    return;
                }
                ctx.rep.bucket("expected.err");
                if e.is_empty() {
                    ctx.violate("C15:empty-error-list", "rejected with an empty error list", wit.clone());
                    return;
                }
                if first_is_type {
                    if e.len() != expected.len() {
                        ctx.violate(
                            format!("C15:error-count:{}", if e.len() < expected.len() { "too-few" } else { "too-many" }),
                            format!("{} faulty records (up to the first unusable length) but {} errors reported: expected classes {:?}, got {}", expected.len(), e.len(), expected, errs_str(e)),
                            wit.clone(),
                        );
                        return;
                    }
                    for (i, (w, g)) in expected.iter().zip(e.iter()).enumerate() {
                        if !same_class(w, g) {
                            ctx.violate(
                                format!("C15:error-order-or-class:{}", super::c05::serr_name(w)),
                                format!("error {} of {} should be {:?} (wire order) but is {:?}; full list {}", i + 1, e.len(), w, g, errs_str(e)),
                                wit.clone(),
                            );
                            return;
                        }
                        ctx.rep.bucket("errors.matched");
                    }
                    if e.len() >= 2 {
                        ctx.rep.bucket("multi_error_lists");
                    }
                }
            }
        }
    }
    ctx.rep.sample(|| wit.clone());
}

fn run(ctx: &mut Ctx) {
    match ctx.stream {
        "enumerated" => {
            // idx -> k (0..=4) and a fault kind per position, base N_FAULTS+1
            let base = N_FAULTS + 1;
            let mut x = ctx.idx;
            let k = (x % 5) as usize;
            x /= 5;
            let mut kinds = Vec::new();
            for _ in 0..k {
                kinds.push(x % base);
                x /= base;
            }
            if x != 0 {
                return; // beyond the enumeration
            }
            // faults 4 (second message type) and 1/3/... at position 0 would make the first record
            // not a valid Message Type; those placements belong to the first_not_type stream
            if k > 0 && kinds[0] != 0 {
                return;
            }
            let mut recs = Vec::new();
            for (i, f) in kinds.iter().enumerate() {
                recs.push(if *f == 0 { good(&mut ctx.rng, i == 0) } else { faulty(&mut ctx.rng, *f) });
            }
            judge(ctx, recs);
        }
        "sampled" => {
            let k = ctx.rng.range(0, 8) as usize;
            let mut recs = if k == 0 { vec![] } else { vec![good(&mut ctx.rng, true)] };
            for _ in 1..k {
                if ctx.rng.chance(2, 5) {
                    let f = ctx.rng.range(1, N_FAULTS);
                    recs.push(faulty(&mut ctx.rng, f));
                } else {
                    recs.push(good(&mut ctx.rng, false));
                }
            }
            judge(ctx, recs);
        }
        "fault_counts" => {
            // a chosen number of faulty records (the error list must have exactly that many entries)
            let n = *ctx.rng.pick(&[254usize, 255, 256, 257, 511, 512, 513, 1_024, 4_096, 8_192]);
            let mut recs = vec![good(&mut ctx.rng, true)];
            let proto = faulty(&mut ctx.rng, 3);
            for i in 0..n {
                recs.push(Rec { bytes: proto.bytes.clone(), expect: proto.expect.clone(), value: None, stops: false, fault: 3 });
                if i % 61 == 7 {
                    recs.push(good(&mut ctx.rng, false));
                }
            }
            ctx.rep.bucket("fault_counts");
            judge(ctx, recs);
        }
        "many_records" => {
            // thousands of minimal records, faults behind them (more AVPs than any counter sized
            // from "typical" messages expects)
            let n = *ctx.rng.pick(&[4_095usize, 4_096, 8_189, 8_190, 8_191, 8_192, 8_193, 10_000, 10_900]);
            let mut recs = vec![good(&mut ctx.rng, true)];
            let seq = SAvp { attr: 39, hidden: false, body: SBody::Empty };
            let seq_rec = Rec { bytes: senc::avp(&seq).unwrap(), expect: None, value: Some(seq), stops: false, fault: 0 };
            for _ in 0..n {
                recs.push(seq_rec.clone());
            }
            ctx.rep.bucket("many_records");
            let k = ctx.rng.range(0, 3);
            for _ in 0..k {
                let f = ctx.rng.range(1, 7);
                recs.push(faulty(&mut ctx.rng, f));
                if ctx.rng.bool() {
                    recs.push(good(&mut ctx.rng, false));
                }
            }
            judge(ctx, recs);
        }
        "slow_reader" => {
            // 40..80 records, a few of them faulty, decoded from a slow transport
            let n = ctx.rng.range(40, 80) as usize;
            let mut recs = vec![good(&mut ctx.rng, true)];
            for _ in 0..n {
                if ctx.rng.chance(1, 12) && ctx.idx % 3 != 0 {
                    let f = ctx.rng.range(1, 7);
                    recs.push(faulty(&mut ctx.rng, f));
                } else {
                    recs.push(good(&mut ctx.rng, false));
                }
            }
            judge(ctx, recs);
        }
        "first_not_type" => {
            // first record is not a (valid) Message Type: must be rejected, list non-empty
            let k = ctx.rng.range(1, 5) as usize;
            let mut recs = Vec::new();
            let first = if ctx.rng.bool() {
                let mut r = good(&mut ctx.rng, false);
                while matches!(&r.value, Some(SAvp { attr: 0, hidden: false, .. })) {
                    r = good(&mut ctx.rng, false);
                }
                r
            } else {
                let f = ctx.rng.range(1, N_FAULTS);
                faulty(&mut ctx.rng, f)
            };
            recs.push(first);
            for _ in 1..k {
                recs.push(good(&mut ctx.rng, false));
            }
            judge(ctx, recs);
        }
        _ => unreachable!(),
    }
}
