//! C10 Re-encoding a decoded message is stable: one round reaches a fixed point.

use super::common::*;
use super::*;
use crate::exec::{self, Out, Rk, Wk};
use crate::gen::wire;
use crate::glue;
use crate::report::J;
use crate::spec::model::*;
use crate::spec::tables::*;

pub fn def() -> PropDef {
    PropDef {
        id: "C10",
        num: 10,
        streams,
        run,
        floors,
        rule: "every (octets, options) the crate accepts as a control message or as a data message without the offset bit: m = decode(b), e1 = encode(m), decode_strict(e1) must be Ok(m') with m' = m up to the control length (= |e1|), and encode(m') = e1. Inputs are hostile mutations enriched with the named non-canonical forms (reserved header bits, version != 2, P/O on control, M unset, reserved AVP bits, surplus payload octets, trailing octets in the AVP region, octets past Length). Distinct = distinct accepted inputs; non-trivial = input that is not already canonical (e1 != consumed part of b).",
    }
}

fn streams(t: Tier) -> Vec<StreamDef> {
    vec![st("noncanonical", t.n(60_000, 3_000_000, 80, 15_000), false), st("hostile", t.n(60_000, 3_000_000, 80, 15_000), false), st("flagwords", t.n(65536, 65536, 0, 65536), true), st("big", t.n(240, 6000, 0, 240), false)]
}

fn floors(t: Tier) -> Vec<(String, u64)> {
    if t == Tier::Miri {
        return vec![("fixedpoint.ok".into(), 10)];
    }
    vec![
        ("fixedpoint.ok".into(), 20_000),
        ("fixedpoint.noncanonical".into(), 5_000),
        ("form.reserved_bits".into(), 100),
        ("form.version".into(), 100),
        ("form.control_p_or_o".into(), 100),
        ("form.m_unset".into(), 100),
        ("form.avp_reserved".into(), 100),
        ("form.surplus_payload".into(), 100),
        ("form.trailing_region".into(), 100),
        ("form.past_length".into(), 100),
        ("accepted.data".into(), 1000),
        ("accepted.control".into(), 1000),
    ]
}

/// Apply named non-canonical forms to a valid control wire; returns the names applied.
fn decanonicalise(ctx: &mut Ctx, w: &mut wire::Wire) -> Vec<&'static str> {
    let mut names = Vec::new();
    let r = &mut ctx.rng;
    let k = 1 + r.below(3);
    for _ in 0..k {
        match r.below(8) {
            0 => {
                // reserved header bit
                let bits = [0u16, 1, 2, 3, 10, 11, 13];
                let b = *r.pick(&bits);
                if b < 8 {
                    w.bytes[1] ^= 1 << b;
                } else {
                    w.bytes[0] ^= 1 << (b - 8);
                }
                names.push("form.reserved_bits");
            }
            1 => {
                w.bytes[1] = (w.bytes[1] & 0x0f) | ((r.below(16) as u8) << 4);
                names.push("form.version");
            }
            2 => {
                if w.control {
                    w.bytes[0] |= if r.bool() { 0x80 } else { 0x40 };
                    names.push("form.control_p_or_o");
                }
            }
            3 => {
                if !w.avps.is_empty() {
                    let at = *r.pick(&w.avps);
                    w.bytes[at] &= !0x01;
                    names.push("form.m_unset");
                }
            }
            4 => {
                if !w.avps.is_empty() {
                    let at = *r.pick(&w.avps);
                    w.bytes[at] |= 1 << r.range(2, 5);
                    names.push("form.avp_reserved");
                }
            }
            5 => {
                if w.control && wire::mutate(r, w, 19) {
                    names.push("form.surplus_payload");
                }
            }
            6 => {
                // 1..5 trailing octets inside the AVP region (Length covers them)
                if w.control {
                    let extra = r.range(1, 5) as usize;
                    let s = r.bytes(extra);
                    w.bytes.extend_from_slice(&s);
                    let total = w.bytes.len();
                    if total <= 65535 {
                        w.bytes[2] = (total >> 8) as u8;
                        w.bytes[3] = total as u8;
                        names.push("form.trailing_region");
                    } else {
                        w.bytes.truncate(total - extra);
                    }
                }
            }
            _ => {
                if w.length_at.is_some() {
                    let s = r.bytes_range(1, 20);
                    w.bytes.extend_from_slice(&s);
                    names.push("form.past_length");
                }
            }
        }
    }
    names
}

pub fn judge(ctx: &mut Ctx, b: &[u8], forms: &[&'static str]) {
    let o = SOpts::from_index(ctx.rng.below(8) as u8);
    let run = exec::decode_msg(b, Some(o), Rk::Slice);
    let m = match run.out {
        Out::Ok(m) => m,
        _ => {
            ctx.rep.bucket("input.not_accepted");
            return;
        }
    };
    // data messages with the offset bit are outside the property's domain
    if !matches!(m, SMsg::Control(_)) && b.len() >= 1 && (b[0] & 0x40) != 0 {
        ctx.rep.bucket("input.data_with_offset_skipped");
        return;
    }
    match &m {
        SMsg::Control(_) => ctx.rep.bucket("accepted.control"),
        SMsg::Data(_) => ctx.rep.bucket("accepted.data"),
    }
    let wit = J::obj(vec![("input_hex", J::hex(b)), ("options", J::s(opts_str(Some(o))))]);
    let cm = match glue::msg_to_crate(&m) {
        Some(c) => c,
        None => {
            ctx.violate("C10:decoded-value-unrepresentable", format!("decoded value cannot be rebuilt through the public API: {:?}", m), wit);
            return;
        }
    };
    let e1 = match exec::encode_msg(&cm, Wk::Vec) {
        exec::EncOut::Ok(e) => e.bytes,
        exec::EncOut::Panic(p) => {
            ctx.violate(format!("C10:reencode-panic:{}", p.class()), format!("encoding a decoded value panicked: {} ({:?})", p.message, m), wit);
            return;
        }
    };
    // the same decoded value encoded from a destructor during an unrelated unwind must give e1
    if e1.len() > 20_000 || ctx.rng.chance(1, 4) {
        match exec::encode_msg(&cm, Wk::WhileUnwinding) {
            exec::EncOut::Ok(e) if e.bytes == e1 => ctx.rep.bucket("reencode.while_unwinding"),
            exec::EncOut::Ok(e) => {
                ctx.violate("C10:reencode-differs-while-unwinding", format!("encode(m) gives {} octets normally and {} different octets when it runs in a destructor during an unwind", e1.len(), e.bytes.len()), wit);
                return;
            }
            exec::EncOut::Panic(_) => {
                ctx.violate("C10:reencode-refused-while-unwinding", "encode(m) succeeds normally but is refused when it runs in a destructor during an unwind", wit);
                return;
            }
        }
    }
    let consumed = b.len() - run.remaining;
    let canonical = b[..consumed.min(b.len())] == e1[..];
    ctx.rep.case(b, !canonical);
    let run2 = exec::decode_msg(&e1, Some(SOpts::STRICT), Rk::Slice);
    let m2 = match run2.out {
        Out::Ok(m2) => m2,
        other => {
            ctx.violate(
                format!("C10:reencoded-rejected:{}", match &other { Out::Err(e) => super::c05::first_err_name(e), o => o.class().to_string() }),
                format!("encode(decode(b)) is not accepted under strict options: {} ; e1 = {}", out_str(&other), crate::report::hex(&e1[..e1.len().min(200)])),
                wit,
            );
            return;
        }
    };
    let mut want = m.clone();
    if let SMsg::Control(c) = &mut want {
        c.length = e1.len() as u16;
    }
    if m2 != want {
        ctx.violate(
            format!("C10:drift:value:{}", super::c05::msg_diff_class(&want, &m2)),
            format!("decode(encode(m)) != m: m = {:?}, m' = {:?}", want, m2),
            wit,
        );
        return;
    }
    let cm2 = glue::msg_to_crate(&m2).unwrap();
    match exec::encode_msg(&cm2, Wk::Vec) {
        exec::EncOut::Ok(e2) => {
            if e2.bytes != e1 {
                ctx.violate("C10:drift:octets", format!("encode(m') != encode(m): {} vs {}", crate::report::hex(&e2.bytes[..e2.bytes.len().min(200)]), crate::report::hex(&e1[..e1.len().min(200)])), wit);
                return;
            }
        }
        exec::EncOut::Panic(p) => {
            ctx.violate(format!("C10:reencode-panic:{}", p.class()), format!("second encoding panicked: {}", p.message), wit);
            return;
        }
    }
    ctx.rep.bucket("fixedpoint.ok");
    if !canonical {
        ctx.rep.bucket("fixedpoint.noncanonical");
        for f in forms {
            ctx.rep.bucket(f);
        }
    }
    ctx.rep.sample(|| J::obj(vec![("input_hex", J::hex(&b[..b.len().min(80)])), ("options", J::s(opts_str(Some(o)))), ("canonical_hex", J::hex(&e1[..e1.len().min(80)])), ("forms", J::A(forms.iter().map(|f| J::s(*f)).collect()))]));
}

fn run(ctx: &mut Ctx) {
    match ctx.stream {
        "noncanonical" => {
            let mut w = wire::valid_message(&mut ctx.rng);
            // drop the offset bit from data messages (outside the domain)
            if !w.control && w.offset_at.is_some() {
                return;
            }
            let forms = decanonicalise(ctx, &mut w);
            let b = w.bytes.clone();
            judge(ctx, &b, &forms);
        }
        "hostile" => {
            let (b, _) = wire::hostile(&mut ctx.rng);
            judge(ctx, &b, &[]);
        }
        "big" => {
            // accepted messages of tens of kilobytes (maximal records, thousands of minimal ones)
            let b = if ctx.rng.bool() {
                let n = *ctx.rng.pick(&[5_000usize, 5_461, 5_462, 8_191, 10_000, 10_919]);
                let mut body = wire::message_type_record(1);
                for _ in 0..n {
                    body.extend_from_slice(&[0x00, 0x06, 0, 0, 0, 39]); // M bit unset: non-canonical
                }
                wire::control_around(&body, 1, 2, 3, 4)
            } else {
                let mut body = wire::message_type_record(1);
                for _ in 0..ctx.rng.range(20, 63) {
                    body.extend_from_slice(&wire::raw_record(7, false, 0, &vec![0x41; 1017], false));
                }
                wire::control_around(&body, 1, 2, 3, 4)
            };
            ctx.rep.bucket("big_inputs");
            judge(ctx, &b, &[]);
        }
        "flagwords" => {
            let w = ctx.idx as u16;
            if w & BIT_T == 0 && w & BIT_O != 0 {
                return;
            }
            let n = ctx.rng.below(3) as usize;
            let b = body_for_word(&mut ctx.rng, w, n);
            judge(ctx, &b, &[]);
        }
        _ => unreachable!(),
    }
}
