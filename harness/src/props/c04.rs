//! C04 Data messages survive encode then decode: ids, Ns/Nr, priority, length, payload.

use super::common::*;
use super::*;
use crate::exec::{self, Out, Rk, Wk};
use crate::gen::val;
use crate::glue;
use crate::report::J;
use crate::spec::model::*;

pub fn def() -> PropDef {
    PropDef {
        id: "C04",
        num: 4,
        streams,
        run,
        floors,
        rule: "data messages in the stated domain (non-empty payload, length absent or the true size, offset absent or n <= |data|-1, both priorities, Ns/Nr optional): all 16 L/S/O/P header shapes x payload sizes 1..24 x every legal offset size enumerated, plus random larger ones; encode with the crate, decode with the crate (default and strict options, SliceReader and contract readers), compare field by field with d[offset := None, data := data[n..]]. Distinct = distinct messages; non-trivial = every case (all have a payload).",
    }
}

const ENUM_SIZES: u64 = 24;

fn streams(t: Tier) -> Vec<StreamDef> {
    // enumerated: shape (16) x size (1..24) x offset index (0..size-1, only when O) -> bounded by 16*24*24
    vec![st("enumerated", t.n(16 * ENUM_SIZES * ENUM_SIZES, 16 * ENUM_SIZES * ENUM_SIZES, 100, 16 * ENUM_SIZES * ENUM_SIZES), true), st("random", t.n(60_000, 3_000_000, 60, 10_000), false), st("large_nolength", t.n(8 * LARGE.len() as u64, 8 * LARGE.len() as u64, 0, 8 * LARGE.len() as u64), true)]
}

fn floors(t: Tier) -> Vec<(String, u64)> {
    if t == Tier::Miri {
        return vec![("roundtrip.ok".into(), 20)];
    }
    let mut f: Vec<(String, u64)> = vec![("roundtrip.ok".into(), 10_000), ("offset.some".into(), 1000), ("offset.max".into(), 100), ("length.some".into(), 1000)];
    for s in 0..16 {
        f.push((format!("shape.{}", s), 50));
    }
    f
}

pub fn judge(ctx: &mut Ctx, d: &SData) {
    let m = SMsg::Data(d.clone());
    let cm = glue::msg_to_crate(&m).unwrap();
    let key = format!("{:?}", d);
    ctx.rep.case(key.as_bytes(), true);
    let shape = (d.length.is_some() as u8) | ((d.nsnr.is_some() as u8) << 1) | ((d.offset.is_some() as u8) << 2) | ((d.prio as u8) << 3);
    ctx.rep.bucket(&format!("shape.{}", shape));
    if let Some(n) = d.offset {
        ctx.rep.bucket("offset.some");
        if n as usize == d.data.len() - 1 {
            ctx.rep.bucket("offset.max");
        }
    }
    if d.length.is_some() {
        ctx.rep.bucket("length.some");
    }
    // the same message into a pre-sized and into a recycled buffer must give the same octets
    for wk in [Wk::Presized(*ctx.rng.pick(&[8usize, 64, 1500, 70_000])), Wk::Reused] {
        match (exec::encode_msg(&cm, wk), exec::encode_msg(&cm, Wk::Vec)) {
            (exec::EncOut::Ok(a), exec::EncOut::Ok(b)) if a.bytes == b.bytes => ctx.rep.bucket("writer_variants.agree"),
            (exec::EncOut::Ok(_), exec::EncOut::Ok(_)) => ctx.violate(format!("C04:encode:differs-by-writer-state:{}", if matches!(wk, Wk::Reused) { "recycled-writer" } else { "presized-writer" }), format!("encoding into a {:?} VecWriter gives different octets than into a fresh one", wk), J::obj(vec![("message", J::s(key.clone()))])),
            (exec::EncOut::Panic(p), exec::EncOut::Ok(_)) => ctx.violate(format!("C04:encode-panic:{}:{}", if matches!(wk, Wk::Reused) { "recycled-writer" } else { "presized-writer" }, p.class()), format!("encoding into a {:?} VecWriter panicked ({}) although a fresh one works", wk, p.message), J::obj(vec![("message", J::s(key.clone()))])),
            _ => {}
        }
    }
    let enc = match exec::encode_msg(&cm, Wk::Vec) {
        exec::EncOut::Ok(e) => e.bytes,
        exec::EncOut::Panic(p) => {
            ctx.violate(format!("C04:encode-panic:{}", p.class()), format!("encoding a data message panicked: {}", p.message), J::obj(vec![("message", J::s(key.clone()))]));
            return;
        }
    };
    let n = d.offset.unwrap_or(0) as usize;
    let mut want = d.clone();
    want.offset = None;
    want.data = d.data[n..].to_vec();
    let want = SMsg::Data(want);
    for (o, rk) in [(None, Rk::Slice), (Some(SOpts::STRICT), Rk::Slice), (Some(SOpts::STRICT), Rk::ContractSlice), (None, Rk::ContractVec)] {
        let run = exec::decode_msg(&enc, o, rk);
        match &run.out {
            Out::Ok(got) if *got == want => {
                ctx.rep.bucket("roundtrip.ok");
                if run.remaining != 0 {
                    ctx.violate("C04:leftover", format!("{} octets left in the reader after decoding an exact data message", run.remaining), J::obj(vec![("message", J::s(key.clone())), ("encoded_hex", J::hex(&enc))]));
                }
            }
            other => {
                let class = match other {
                    Out::Ok(g) => format!("value:{}", super::c05::msg_diff_class(&want, g)),
                    Out::Err(e) => format!("err:{}", super::c05::first_err_name(e)),
                    Out::Panic(p) => format!("panic:{}", p.class()),
                    Out::Budget => "budget".to_string(),
                };
                ctx.violate(
                    format!("C04:roundtrip:{}", class),
                    format!("decode(encode(d)) = {} expected Ok({:?})", out_str(other), want),
                    J::obj(vec![("message", J::s(key.clone())), ("encoded_hex", J::hex(&enc)), ("options", J::s(opts_str(o))), ("reader", J::s(format!("{:?}", rk)))]),
                );
            }
        }
    }
    ctx.rep.sample(|| J::obj(vec![("message", J::s(key.clone())), ("encoded_hex", J::hex(&enc[..enc.len().min(64)]))]));
}

/// Payload sizes for data messages without a Length field (nothing in the format bounds them):
/// around the 16-bit limit a datagram would impose, and well beyond it.
const LARGE: [usize; 34] = [
    65_519, 65_520, 65_521, 65_522, 65_523, 65_524, 65_525, 65_526, 65_527, 65_528, 65_529, 65_530, 65_531, 65_532, 65_533, 65_534, 65_535, 65_536, 65_537, 65_538,
    65_539, 65_540, 65_541, 65_542, 65_543, 65_544, 65_545, 70_000, 131_071, 131_072, 131_073, 1 << 20, (1 << 24) + 1, 20_000_000,
];

/// Round trip of a data message too large to print: compared by size and content, reported by size.
fn judge_large(ctx: &mut Ctx, d: &SData) {
    let m = SMsg::Data(d.clone());
    let cm = glue::msg_to_crate(&m).unwrap();
    let shape = ((d.nsnr.is_some() as u8) << 1) | ((d.offset.is_some() as u8) << 2) | ((d.prio as u8) << 3);
    let key = format!("large:{}:{}:{:?}", shape, d.data.len(), d.offset);
    ctx.rep.case(key.as_bytes(), true);
    let enc = match exec::encode_msg(&cm, Wk::Vec) {
        exec::EncOut::Ok(e) => e.bytes,
        exec::EncOut::Panic(p) => {
            ctx.violate(format!("C04:encode-panic:{}", p.class()), format!("encoding a data message without Length and with {} payload octets panicked: {}", d.data.len(), p.message), J::obj(vec![("case", J::s(key.clone()))]));
            return;
        }
    };
    let n = d.offset.unwrap_or(0) as usize;
    for (o, rk) in [(None, Rk::Slice), (Some(SOpts::STRICT), Rk::ContractSlice)] {
        let run = exec::decode_msg(&enc, o, rk);
        let class = match &run.out {
            Out::Ok(SMsg::Data(g)) if g.data == d.data[n..] && g.tunnel == d.tunnel && g.session == d.session && g.nsnr == d.nsnr && g.prio == d.prio && g.length.is_none() => {
                ctx.rep.bucket("large.roundtrip.ok");
                if run.remaining != 0 {
                    ctx.violate("C04:leftover", format!("{} octets left in the reader after decoding an exact data message of {} payload octets", run.remaining, d.data.len()), J::obj(vec![("case", J::s(key.clone()))]));
                }
                continue;
            }
            Out::Ok(SMsg::Data(g)) if g.data.len() != d.data.len() - n => format!("value:payload-size:{}", if g.data.len() < d.data.len() - n { "shorter" } else { "longer" }),
            Out::Ok(_) => "value:other".to_string(),
            Out::Err(e) => format!("err:{}", super::c05::first_err_name(e)),
            Out::Panic(p) => format!("panic:{}", p.class()),
            Out::Budget => "budget".to_string(),
        };
        let got_len = match &run.out {
            Out::Ok(SMsg::Data(g)) => g.data.len() as i64,
            _ => -1,
        };
        ctx.violate(
            format!("C04:roundtrip:large:{}", class),
            format!("a data message without Length field, {} payload octets (offset size {:?}): decode(encode(d)) returns {} payload octets (-1: no data message), expected {}", d.data.len(), d.offset, got_len, d.data.len() - n),
            J::obj(vec![("case", J::s(key.clone())), ("encoded_head_hex", J::hex(&enc[..enc.len().min(32)])), ("options", J::s(opts_str(o))), ("reader", J::s(format!("{:?}", rk)))]),
        );
    }
}

fn run(ctx: &mut Ctx) {
    match ctx.stream {
        "large_nolength" => {
            let size = LARGE[(ctx.idx / 8) as usize % LARGE.len()];
            if size > (1 << 20) && ctx.build != "rel" {
                return;
            }
            // the 8 shapes without L
            let shape = ((ctx.idx % 8) as u8) << 1;
            let mut d = val::data(&mut ctx.rng, Some(shape), 4);
            d.data = ctx.rng.bytes(size);
            if shape & 4 != 0 {
                d.offset = Some(*ctx.rng.pick(&[0u16, 1, 7, 65_535, 65_529]).min(&((size - 1).min(65_535) as u16)));
            }
            d.length = None;
            judge_large(ctx, &d);
        }
        "enumerated" => {
            let shape = (ctx.idx % 16) as u8;
            let size = ((ctx.idx / 16) % ENUM_SIZES) as usize + 1;
            let off = (ctx.idx / (16 * ENUM_SIZES)) as usize;
            let has_o = shape & 4 != 0;
            if (has_o && off >= size) || (!has_o && off > 0) {
                return;
            }
            let mut d = val::data(&mut ctx.rng, Some(shape), 4);
            d.data = ctx.rng.bytes(size);
            if has_o {
                d.offset = Some(off as u16);
            }
            if d.length.is_some() {
                d.length = Some(crate::spec::encode::data_size(&d) as u16);
            }
            judge(ctx, &d);
        }
        "random" => {
            let maxd = if ctx.rng.chance(1, 50) { 65535 - 14 } else { 300 };
            let d = val::data(&mut ctx.rng, None, maxd);
            judge(ctx, &d);
        }
        _ => unreachable!(),
    }
}
