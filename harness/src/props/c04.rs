//! C04 Data messages survive encode then decode: ids, Ns/Nr, priority, length, payload.

use super::common::*;
use super::*;
use crate::exec::{self, Out, Rk, Wk};
use crate::gen::val;
use crate::glue;
use crate::report::J;
use crate::spec::model::*;

pub fn def() -> PropDef {
    PropDef {
        id: "C04",
        num: 4,
        streams,
        run,
        floors,
        rule: "data messages in the stated domain (non-empty payload, length absent or the true size, offset absent or n <= |data|-1, both priorities, Ns/Nr optional): all 16 L/S/O/P header shapes x payload sizes 1..24 x every legal offset size enumerated, plus random larger ones; encode with the crate, decode with the crate (default and strict options, SliceReader and contract readers), compare field by field with d[offset := None, data := data[n..]]. Distinct = distinct messages; non-trivial = every case (all have a payload).",
    }
}

const ENUM_SIZES: u64 = 24;

fn streams(t: Tier) -> Vec<StreamDef> {
    // enumerated: shape (16) x size (1..24) x offset index (0..size-1, only when O) -> bounded by 16*24*24
    vec![st("enumerated", t.n(16 * ENUM_SIZES * ENUM_SIZES, 16 * ENUM_SIZES * ENUM_SIZES, 100, 16 * ENUM_SIZES * ENUM_SIZES), true), st("random", t.n(60_000, 3_000_000, 60, 10_000), false)]
}

fn floors(t: Tier) -> Vec<(String, u64)> {
    if t == Tier::Miri {
        return vec![("roundtrip.ok".into(), 20)];
    }
    let mut f: Vec<(String, u64)> = vec![("roundtrip.ok".into(), 10_000), ("offset.some".into(), 1000), ("offset.max".into(), 100), ("length.some".into(), 1000)];
    for s in 0..16 {
        f.push((format!("shape.{}", s), 50));
    }
    f
}

pub fn judge(ctx: &mut Ctx, d: &SData) {
    let m = SMsg::Data(d.clone());
    let cm = glue::msg_to_crate(&m).unwrap();
    let key = format!("{:?}", d);
    ctx.rep.case(key.as_bytes(), true);
    let shape = (d.length.is_some() as u8) | ((d.nsnr.is_some() as u8) << 1) | ((d.offset.is_some() as u8) << 2) | ((d.prio as u8) << 3);
    ctx.rep.bucket(&format!("shape.{}", shape));
    if let Some(n) = d.offset {
        ctx.rep.bucket("offset.some");
        if n as usize == d.data.len() - 1 {
            ctx.rep.bucket("offset.max");
        }
    }
    if d.length.is_some() {
        ctx.rep.bucket("length.some");
    }
    // the same message into a pre-sized and into a recycled buffer must give the same octets
    for wk in [Wk::Presized(*ctx.rng.pick(&[8usize, 64, 1500, 70_000])), Wk::Reused] {
        match (exec::encode_msg(&cm, wk), exec::encode_msg(&cm, Wk::Vec)) {
            (exec::EncOut::Ok(a), exec::EncOut::Ok(b)) if a.bytes == b.bytes => ctx.rep.bucket("writer_variants.agree"),
            (exec::EncOut::Ok(_), exec::EncOut::Ok(_)) => ctx.violate(format!("C04:encode:differs-by-writer-state:{}", if matches!(wk, Wk::Reused) { "recycled-writer" } else { "presized-writer" }), format!("encoding into a {:?} VecWriter gives different octets than into a fresh one", wk), J::obj(vec![("message", J::s(key.clone()))])),
            (exec::EncOut::Panic(p), exec::EncOut::Ok(_)) => ctx.violate(format!("C04:encode-panic:{}:{}", if matches!(wk, Wk::Reused) { "recycled-writer" } else { "presized-writer" }, p.class()), format!("encoding into a {:?} VecWriter panicked ({}) although a fresh one works", wk, p.message), J::obj(vec![("message", J::s(key.clone()))])),
            _ => {}
        }
    }
    let enc = match exec::encode_msg(&cm, Wk::Vec) {
        exec::EncOut::Ok(e) => e.bytes,
        exec::EncOut::Panic(p) => {
            ctx.violate(format!("C04:encode-panic:{}", p.class()), format!("encoding a data message panicked: {}", p.message), J::obj(vec![("message", J::s(key.clone()))]));
            return;
        }
    };
    let n = d.offset.unwrap_or(0) as usize;
    let mut want = d.clone();
    want.offset = None;
    want.data = d.data[n..].to_vec();
    let want = SMsg::Data(want);
    for (o, rk) in [(None, Rk::Slice), (Some(SOpts::STRICT), Rk::Slice), (Some(SOpts::STRICT), Rk::ContractSlice), (None, Rk::ContractVec)] {
        let run = exec::decode_msg(&enc, o, rk);
        match &run.out {
            Out::Ok(got) if *got == want => {
                ctx.rep.bucket("roundtrip.ok");
                if run.remaining != 0 {
                    ctx.violate("C04:leftover", format!("{} octets left in the reader after decoding an exact data message", run.remaining), J::obj(vec![("message", J::s(key.clone())), ("encoded_hex", J::hex(&enc))]));
                }
            }
            other => {
                let class = match other {
                    Out::Ok(g) => format!("value:{}", super::c05::msg_diff_class(&want, g)),
                    Out::Err(e) => format!("err:{}", super::c05::first_err_name(e)),
                    Out::Panic(p) => format!("panic:{}", p.class()),
                    Out::Budget => "budget".to_string(),
                };
                ctx.violate(
                    format!("C04:roundtrip:{}", class),
                    format!("decode(encode(d)) = {} expected Ok({:?})", out_str(other), want),
                    J::obj(vec![("message", J::s(key.clone())), ("encoded_hex", J::hex(&enc)), ("options", J::s(opts_str(o))), ("reader", J::s(format!("{:?}", rk)))]),
                );
            }
        }
    }
    ctx.rep.sample(|| J::obj(vec![("message", J::s(key.clone())), ("encoded_hex", J::hex(&enc[..enc.len().min(64)]))]));
}

fn run(ctx: &mut Ctx) {
    match ctx.stream {
        "enumerated" => {
            let shape = (ctx.idx % 16) as u8;
            let size = ((ctx.idx / 16) % ENUM_SIZES) as usize + 1;
            let off = (ctx.idx / (16 * ENUM_SIZES)) as usize;
            let has_o = shape & 4 != 0;
            if (has_o && off >= size) || (!has_o && off > 0) {
                return;
            }
            let mut d = val::data(&mut ctx.rng, Some(shape), 4);
            d.data = ctx.rng.bytes(size);
            if has_o {
                d.offset = Some(off as u16);
            }
            if d.length.is_some() {
                d.length = Some(crate::spec::encode::data_size(&d) as u16);
            }
            judge(ctx, &d);
        }
        "random" => {
            let maxd = if ctx.rng.chance(1, 50) { 65535 - 14 } else { 300 };
            let d = val::data(&mut ctx.rng, None, maxd);
            judge(ctx, &d);
        }
        _ => unreachable!(),
    }
}
