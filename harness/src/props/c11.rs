//! C11 Hiding then revealing an AVP with the same secret and random vector returns it.

use super::common::*;
use super::*;
use crate::exec::{self, Out, Rk, Wk};
use crate::gen::val;
use crate::glue;
use crate::report::J;
use crate::spec::encode as senc;
use crate::spec::model::*;

pub fn def() -> PropDef {
    PropDef {
        id: "C11",
        num: 11,
        streams,
        run,
        floors,
        rule: "non-hidden AVPs of all 39 kinds with 2+|payload|+|lp| <= 1008, secrets of length {0,1,15,16,17,47..50,55..58,64,random<=200} (straddling MD5's padding boundaries), random vectors, length paddings chosen to give block counts {1,2,3,4,8,..,63} and all 16 alignment residues, random alignment padding: reveal(hide(a)) = Ok(a) directly and after write -> try_read_greedy; hide(hidden) = hidden; reveal(non-hidden) = Ok(same). Distinct = distinct (value, secret, rv, lp, ap); non-trivial = hide actually encrypts (every case in the main streams).",
    }
}

fn streams(t: Tier) -> Vec<StreamDef> {
    vec![st("grid", t.n(39 * 16 * 8, 39 * 16 * 64, 80, 39 * 16 * 2), true), st("random", t.n(30_000, 1_500_000, 60, 8_000), false), st("identity", t.n(6_000, 200_000, 30, 2_000), false), st("feedback", t.n(6_000, 200_000, 30, 2_000), false)]
}

fn floors(t: Tier) -> Vec<(String, u64)> {
    if t == Tier::Miri {
        return vec![("roundtrip.direct".into(), 20)];
    }
    let mut f: Vec<(String, u64)> = vec![
        ("roundtrip.direct".into(), 20_000),
        ("roundtrip.wire".into(), 20_000),
        ("hide.of.hidden".into(), 1000),
        ("reveal.of.plain".into(), 1000),
        ("blocks.1".into(), 100),
        ("blocks.2".into(), 100),
        ("blocks.3".into(), 100),
        ("blocks.4+".into(), 100),
        ("blocks.63".into(), 5),
        ("secret.empty".into(), 100),
    ];
    for res in 0..16 {
        f.push((format!("residue.{}", res), 50));
    }
    f
}

pub struct HideCase {
    pub a: SAvp,
    pub secret: Vec<u8>,
    pub rv: [u8; 4],
    pub lp: Vec<u8>,
    pub ap: [u8; 16],
}

impl HideCase {
    pub fn key(&self) -> Vec<u8> {
        let lph = crate::monitor::hll::hash_bytes(11, &self.lp);
        format!("{:?}|{:?}|{:?}|{}:{:x}|{:?}", self.a, self.secret, self.rv, self.lp.len(), lph, self.ap).into_bytes()
    }
    pub fn witness(&self) -> J {
        J::obj(vec![
            ("avp", J::s(format!("{:?}", self.a))),
            ("secret_hex", J::hex(&self.secret)),
            ("random_vector_hex", J::hex(&self.rv)),
            ("length_padding_octets", J::U(self.lp.len() as u64)),
            ("length_padding_hex", J::hex(&self.lp[..self.lp.len().min(1100)])),
            ("alignment_padding_hex", J::hex(&self.ap)),
        ])
    }
}

/// Case with a chosen block count / residue: the length padding is sized so that
/// 2 + |payload| + |lp| = 16*(blocks-1) + residue' with the requested residue.
pub fn grid_case(r: &mut crate::gen::Rng, kind: usize, residue: usize, blocks_sel: usize) -> HideCase {
    let blocks = [1usize, 2, 3, 4, 8, 17, 40, 63][blocks_sel % 8];
    // plaintext length target (before alignment padding): 16*(blocks-1) + residue, residue 0 => exactly 16*blocks
    let target = if residue == 0 { 16 * blocks } else { 16 * (blocks - 1) + residue };
    // payload small enough to leave room for padding
    let maxp = target.saturating_sub(2).min(1017).max(1);
    let a = val::avp_kind(r, kind, maxp.min(60));
    let plen = senc::payload(&a).len();
    let lp_len = target.saturating_sub(2 + plen).min(1008usize.saturating_sub(2 + plen));
    let lp = r.bytes(lp_len);
    let mut ap = [0u8; 16];
    ap.copy_from_slice(&r.bytes(16));
    let mut rv = [0u8; 4];
    rv.copy_from_slice(&r.bytes(4));
    HideCase { a, secret: val::secret(r), rv, lp, ap }
}

pub fn random_case(r: &mut crate::gen::Rng) -> HideCase {
    let kind = r.below(39) as usize;
    let maxp = if r.chance(1, 8) { 1006 } else { 80 };
    let a = val::avp_kind(r, kind, maxp);
    let plen = senc::payload(&a).len();
    let room = 1008 - 2 - plen;
    let lp_len = match r.below(4) {
        0 => 0,
        1 => r.range(0, 40) as usize,
        2 => room,
        _ => r.range(0, room as u64) as usize,
    }
    .min(room);
    let lp = r.bytes(lp_len);
    let mut ap = [0u8; 16];
    ap.copy_from_slice(&r.bytes(16));
    let mut rv = [0u8; 4];
    rv.copy_from_slice(&r.bytes(4));
    HideCase { a, secret: val::secret(r), rv, lp, ap }
}

/// G-feedback: a chosen plaintext that depends on its own ciphertext. One or two 16-octet blocks
/// of the payload (or of the length padding) are set to a *ciphertext* block 1..3 positions
/// earlier, or to an earlier plaintext block, as computed by the reference cipher. Since block j
/// of the plaintext only influences ciphertext blocks j.., the earlier blocks stay what they
/// were. Any shortcut that recognises "a block seen before" (memoised digests, run-length tricks)
/// meets its trigger here; independent random data never does (2^-128).
pub fn feedback_case(r: &mut crate::gen::Rng) -> HideCase {
    let attr = *r.pick(&[11u16, 7, 26, 27, 28, 33, 37]);
    let nblocks = r.range(3, 9) as usize;
    let body_len = 16 * nblocks - 2 + r.below(16) as usize;
    let mut body = r.bytes(body_len);
    let split = match r.below(3) {
        0 => body_len,
        1 => r.range(1, body_len as u64) as usize,
        _ => r.range(1, 20) as usize,
    };
    let secret = {
        let s = val::secret(r);
        if s.len() > 300 { s[..300].to_vec() } else { s }
    };
    let mut rv = [0u8; 4];
    rv.copy_from_slice(&r.bytes(4));
    let mut ap = [0u8; 16];
    ap.copy_from_slice(&r.bytes(16));
    let mut js: Vec<usize> = (0..r.range(1, 2)).map(|_| r.range(1, nblocks as u64 - 1) as usize).collect();
    js.sort_unstable();
    js.dedup();
    for j in js {
        let cipher = crate::spec::hide::hide(attr, &body[..split], &secret, &rv, &body[split..], &ap);
        let d = (r.range(1, 3) as usize).min(j);
        let src: Vec<u8> = if r.chance(3, 4) {
            cipher[16 * (j - d)..16 * (j - d) + 16].to_vec()
        } else {
            // an earlier plaintext block (block 0 starts with the two length octets)
            let plain = crate::spec::hide::plaintext(&body[..split], &body[split..], &ap);
            plain[16 * (j - d)..16 * (j - d) + 16].to_vec()
        };
        body[16 * j - 2..16 * j + 14].copy_from_slice(&src);
    }
    let lp = body[split..].to_vec();
    HideCase { a: SAvp { attr, hidden: false, body: SBody::Bytes(body[..split].to_vec()) }, secret, rv, lp, ap }
}

pub fn judge(ctx: &mut Ctx, c: &HideCase) {
    let ca = glue::avp_to_crate(&c.a).unwrap();
    let plain_len = 2 + senc::payload(&c.a).len() + c.lp.len();
    let blocks = (plain_len + 15) / 16;
    ctx.rep.case(&c.key(), true);
    ctx.rep.bucket(&format!("blocks.{}", if blocks >= 4 && blocks != 63 { "4+".to_string() } else { blocks.to_string() }));
    ctx.rep.bucket(&format!("residue.{}", plain_len % 16));
    if c.secret.is_empty() {
        ctx.rep.bucket("secret.empty");
    }
    let h = match exec::hide(ca.clone(), &c.secret, c.rv, &c.lp, &c.ap) {
        Ok(h) => h,
        Err(p) => {
            ctx.violate(format!("C11:hide-panic:{}", p.class()), format!("hide panicked on an in-domain AVP: {}", p.message), c.witness());
            return;
        }
    };
    let hs = glue::avp_to_spec(&h);
    if !hs.hidden {
        ctx.violate("C11:hide-not-hidden", format!("hide returned a non-hidden AVP: {:?}", hs), c.witness());
        return;
    }
    // direct
    match exec::reveal(h.clone(), &c.secret, c.rv) {
        Out::Ok(b) if b == c.a => ctx.rep.bucket("roundtrip.direct"),
        other => {
            ctx.violate(
                format!("C11:roundtrip:direct:attr{}:{}", c.a.attr, other.class()),
                format!("reveal(hide(a)) = {} expected Ok({:?}) [{} blocks]", out_str(&other), c.a, blocks),
                c.witness(),
            );
            return;
        }
    }
    // through the wire
    let enc = match exec::encode_avp(&h, Wk::Vec) {
        exec::EncOut::Ok(e) => e.bytes,
        exec::EncOut::Panic(p) => {
            ctx.violate(format!("C11:encode-hidden-panic:{}", p.class()), format!("encoding the hidden AVP panicked: {}", p.message), c.witness());
            return;
        }
    };
    let run = exec::decode_avps(&enc, Rk::Slice);
    let back = match &run.out {
        Out::Ok(l) if l.len() == 1 && l[0].is_ok() => l[0].as_ref().unwrap().clone(),
        other => {
            ctx.violate("C11:roundtrip:wire:decode", format!("decoding the encoded hidden AVP gave {}", out_str(other)), c.witness());
            return;
        }
    };
    if back != hs {
        ctx.violate("C11:roundtrip:wire:hidden-changed", format!("hidden AVP changed on the wire: {:?} vs {:?}", hs, back), c.witness());
        return;
    }
    let back_c = glue::avp_to_crate(&back).unwrap();
    match exec::reveal(back_c, &c.secret, c.rv) {
        Out::Ok(b) if b == c.a => ctx.rep.bucket("roundtrip.wire"),
        other => {
            ctx.violate(format!("C11:roundtrip:wire:attr{}:{}", c.a.attr, other.class()), format!("reveal(decode(encode(hide(a)))) = {} expected Ok({:?})", out_str(&other), c.a), c.witness());
        }
    }
    // hide then reveal on a fresh thread, in its body and from thread-local destructors at teardown
    if ctx.tier != Tier::Miri && c.lp.len() <= 2000 && c.secret.len() <= 4096 && ctx.rng.chance(1, 32) {
        let direct: Out<SAvp> = Out::Ok(c.a.clone());
        let (a, secret, rv, lp, ap) = (c.a.clone(), c.secret.clone(), c.rv, c.lp.clone(), c.ap);
        thread_env_check(
            ctx,
            "C11",
            &direct,
            move || match exec::hide(glue::avp_to_crate(&a).unwrap(), &secret, rv, &lp, &ap) {
                Ok(h) => exec::reveal(h, &secret, rv),
                Err(p) => Out::Panic(p),
            },
            c.witness(),
        );
    }
    ctx.rep.sample(|| c.witness());
}

fn run(ctx: &mut Ctx) {
    match ctx.stream {
        "grid" => {
            let kind = (ctx.idx % 39) as usize;
            let residue = ((ctx.idx / 39) % 16) as usize;
            let sel = (ctx.idx / (39 * 16)) as usize;
            let c = grid_case(&mut ctx.rng, kind, residue, sel);
            judge(ctx, &c);
        }
        "random" => {
            let c = random_case(&mut ctx.rng);
            judge(ctx, &c);
        }
        "feedback" => {
            let c = feedback_case(&mut ctx.rng);
            ctx.rep.bucket("feedback.cases");
            judge(ctx, &c);
        }
        "identity" => {
            let secret = val::secret(&mut ctx.rng);
            let mut rv = [0u8; 4];
            rv.copy_from_slice(&ctx.rng.bytes(4));
            if ctx.rng.bool() {
                // hide(hidden) = hidden
                let h = val::hidden_avp(&mut ctx.rng, 200);
                let ch = glue::avp_to_crate(&h).unwrap();
                let lp = ctx.rng.bytes_range(0, 30);
                let mut ap = [0u8; 16];
                ap.copy_from_slice(&ctx.rng.bytes(16));
                ctx.rep.case(format!("h{:?}", h).as_bytes(), true);
                match exec::hide(ch, &secret, rv, &lp, &ap) {
                    Ok(x) if glue::avp_to_spec(&x) == h => ctx.rep.bucket("hide.of.hidden"),
                    Ok(x) => ctx.violate("C11:hide-of-hidden-changed", format!("hide(h) = {:?} for hidden h = {:?}", glue::avp_to_spec(&x), h), J::obj(vec![("avp", J::s(format!("{:?}", h)))])),
                    Err(p) => ctx.violate(format!("C11:hide-of-hidden-panic:{}", p.class()), p.message.clone(), J::obj(vec![("avp", J::s(format!("{:?}", h)))])),
                }
            } else {
                let a = val::any_avp(&mut ctx.rng, 200);
                if a.hidden {
                    return;
                }
                let ca = glue::avp_to_crate(&a).unwrap();
                ctx.rep.case(format!("p{:?}", a).as_bytes(), true);
                match exec::reveal(ca, &secret, rv) {
                    Out::Ok(b) if b == a => ctx.rep.bucket("reveal.of.plain"),
                    other => ctx.violate("C11:reveal-of-plain-changed", format!("reveal(a) = {} for non-hidden a = {:?}", out_str(&other), a), J::obj(vec![("avp", J::s(format!("{:?}", a)))])),
                }
            }
        }
        _ => unreachable!(),
    }
}
