//! Helpers shared by the property drivers.

use crate::exec::{AvpList, Out};
use crate::gen::wire;
use crate::gen::Rng;
use crate::report::{hex, J};
use crate::spec::model::*;
use crate::spec::tables::*;
use rl2tp::common::DecodeError;

pub fn all_opts() -> [SOpts; 8] {
    let mut a = [SOpts::NONE; 8];
    for i in 0..8 {
        a[i] = SOpts::from_index(i as u8);
    }
    a
}

pub fn opts_str(o: Option<SOpts>) -> String {
    match o {
        None => "try_read".to_string(),
        Some(o) => format!("r{}v{}u{}", o.reserved as u8, o.version as u8, o.unused as u8),
    }
}

pub fn w_input(b: &[u8], o: Option<SOpts>) -> J {
    J::obj(vec![("input_hex", J::S(hex(b))), ("len", J::U(b.len() as u64)), ("options", J::S(opts_str(o)))])
}

pub fn errs_str(e: &[DecodeError]) -> String {
    format!("{:?}", e)
}

pub fn out_str<T: std::fmt::Debug>(o: &Out<T>) -> String {
    let s = match o {
        Out::Ok(v) => format!("Ok({:?})", v),
        Out::Err(e) => format!("Err({:?})", e),
        Out::Panic(p) => format!("Panic({} @ {}:{})", p.message, p.file, p.line),
        Out::Budget => "StepBudgetExceeded".to_string(),
    };
    if s.len() > 600 {
        format!("{}...({} chars)", &s[..s.char_indices().nth(600).map(|x| x.0).unwrap_or(s.len())], s.len())
    } else {
        s
    }
}

/// Same observable result? (`Ok` values equal, `Err` lists equal, both panicked, both over budget)
pub fn same_out<T: PartialEq>(a: &Out<T>, b: &Out<T>) -> bool {
    match (a, b) {
        (Out::Ok(x), Out::Ok(y)) => x == y,
        (Out::Err(x), Out::Err(y)) => x == y,
        (Out::Panic(_), Out::Panic(_)) => true,
        (Out::Budget, Out::Budget) => true,
        _ => false,
    }
}

pub fn same_list(a: &AvpList, b: &AvpList) -> bool {
    a == b
}

/// Length bucket of an AVP record
pub fn len_bucket(total: usize) -> &'static str {
    match total {
        0..=5 => "lt6",
        6 => "6",
        7..=255 => "7-255",
        256..=1022 => "256-1022",
        1023 => "1023",
        _ => "gt1023",
    }
}

pub fn size_bucket(n: usize) -> &'static str {
    match n {
        0..=1 => "0-1",
        2..=11 => "2-11",
        12 => "12",
        13..=63 => "13-63",
        64..=1023 => "64-1023",
        1024..=65534 => "1024-65534",
        65535 => "65535",
        _ => "gt65535",
    }
}

/// A message whose body is consistent with flag word `w`: control words get Length/ids/Ns/Nr and
/// `n_avps` valid AVPs; data words get exactly the optional fields their L/S/O bits announce
/// (Length = true size, offset size 0..2 with that many pad octets) and a small payload.
pub fn body_for_word(r: &mut Rng, w: u16, n_avps: usize) -> Vec<u8> {
    let mut b = vec![(w >> 8) as u8, w as u8];
    if w & BIT_T != 0 {
        let mut body = Vec::new();
        if n_avps > 0 {
            body.extend_from_slice(&wire::message_type_record(r.pick(&MESSAGE_TYPES).0));
        }
        for _ in 1..n_avps {
            let attr = ATTRS[r.below(39) as usize].0;
            body.extend_from_slice(&wire::avp_record(r, attr, false));
        }
        let total = 12 + body.len();
        b.extend_from_slice(&[(total >> 8) as u8, total as u8]);
        b.extend_from_slice(&r.bytes(8));
        b.extend_from_slice(&body);
    } else {
        let has_l = w & BIT_L != 0;
        let has_s = w & BIT_S != 0;
        let has_o = w & BIT_O != 0;
        let pad = if has_o { r.below(3) as usize } else { 0 };
        let payload = r.range(1, 6) as usize;
        let total = 2 + 4 + if has_l { 2 } else { 0 } + if has_s { 4 } else { 0 } + if has_o { 2 + pad } else { 0 } + payload;
        if has_l {
            b.extend_from_slice(&[(total >> 8) as u8, total as u8]);
        }
        b.extend_from_slice(&r.bytes(4));
        if has_s {
            b.extend_from_slice(&r.bytes(4));
        }
        if has_o {
            b.extend_from_slice(&[0, pad as u8]);
            b.extend_from_slice(&r.bytes(pad));
        }
        b.extend_from_slice(&r.bytes(payload));
        debug_assert_eq!(b.len(), total);
    }
    b
}

/// Independent length walker over an encoded control message: returns the extents of its AVP
/// records, or a description of the first inconsistency.
pub fn walk_control(b: &[u8]) -> Result<Vec<(usize, usize)>, String> {
    if b.len() < 12 {
        return Err(format!("only {} octets emitted", b.len()));
    }
    let length = ((b[2] as usize) << 8) | b[3] as usize;
    if length != b.len() {
        return Err(format!("Length field {} but {} octets emitted", length, b.len()));
    }
    walk_avps(&b[12..]).map(|v| v.into_iter().map(|(a, l)| (a + 12, l)).collect())
}

/// AVP records must tile `b` exactly.
pub fn walk_avps(b: &[u8]) -> Result<Vec<(usize, usize)>, String> {
    let mut out = Vec::new();
    let mut at = 0;
    while at < b.len() {
        if b.len() - at < 6 {
            return Err(format!("{} stray octets at offset {}", b.len() - at, at));
        }
        let len = (((b[at] >> 6) as usize) << 8) | b[at + 1] as usize;
        if len < 6 {
            return Err(format!("AVP at {} has length field {}", at, len));
        }
        if at + len > b.len() {
            return Err(format!("AVP at {} has length field {} but only {} octets follow", at, len, b.len() - at));
        }
        out.push((at, len));
        at += len;
    }
    Ok(out)
}

pub fn is_nontrivial_input(b: &[u8]) -> bool {
    b.len() >= 6
}

/// Power-of-two bucket of a stack high-water mark.
pub fn stack_bucket(n: usize) -> &'static str {
    match n {
        0 => "stack.unmeasured",
        1..=2048 => "stack.le_2KiB",
        2049..=4096 => "stack.le_4KiB",
        4097..=8192 => "stack.le_8KiB",
        8193..=16384 => "stack.le_16KiB",
        16385..=32768 => "stack.le_32KiB",
        32769..=65536 => "stack.le_64KiB",
        _ => "stack.gt_64KiB",
    }
}

pub const STACK_LIMIT: usize = 56 * 1024;

/// The same call on a fresh thread: in its body and again from thread-local destructors while
/// the thread is torn down (`exec::threadenv`). All results must equal the direct one.
pub fn thread_env_check<T: PartialEq + std::fmt::Debug + Send + 'static>(ctx: &mut super::Ctx, prop: &str, direct: &Out<T>, f: impl Fn() -> Out<T> + Send + Sync + 'static, wit: J) {
    let run = crate::exec::threadenv::run(f);
    ctx.rep.bucket("thread_env.runs");
    ctx.rep.bucket(stack_bucket(run.stack_used));
    match &run.body {
        None => {
            ctx.violate(format!("{}:thread-env:thread-died", prop), "the call made in the body of a fresh thread did not return", wit);
            return;
        }
        Some(b) if !same_out(b, direct) => {
            ctx.violate(format!("{}:thread-env:body:{}-vs-{}", prop, b.class(), direct.class()), format!("on a fresh thread the call gave {}, on the main thread {}", out_str(b), out_str(direct)), wit);
            return;
        }
        _ => {}
    }
    // a thread created with a 64 KiB stack (8 KiB of it left to the runtime and the caller) is an
    // environment the API does not exclude; a single call that needs more cannot complete there
    if run.stack_used > STACK_LIMIT {
        ctx.violate(format!("{}:thread-env:stack-exceeds-64KiB-thread", prop), format!("one call touched {} octets of stack; it overflows the stack of a thread created with 64 KiB", run.stack_used), wit);
        return;
    }
    if run.teardown.len() != 2 {
        // a destructor that did not report: the closure panicked outside the codec call
        ctx.rep.bucket("thread_env.teardown_incomplete");
        return;
    }
    for t in &run.teardown {
        ctx.rep.bucket("thread_env.teardown_calls");
        if !same_out(t, direct) {
            let class = match t {
                Out::Panic(p) => format!("panic:{}", p.class()),
                o => format!("{}-vs-{}", o.class(), direct.class()),
            };
            ctx.violate(format!("{}:thread-env:teardown:{}", prop, class), format!("called from a thread-local destructor while the thread exits, the call gave {}; in the thread's body {}", out_str(t), out_str(direct)), wit);
            return;
        }
    }
}
