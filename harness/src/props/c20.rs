//! C20 Decode errors identify the offending field and render with the right AVP name.

use super::common::*;
use super::*;
use crate::exec::{self, Out, Rk};
use crate::gen::{val, wire};
use crate::glue;
use crate::report::J;
use crate::spec::encode as senc;
use crate::spec::model::*;
use crate::spec::tables::*;
use rl2tp::common::DecodeError;

pub fn def() -> PropDef {
    PropDef {
        id: "C20",
        num: 20,
        streams,
        run,
        floors,
        rule: "single-fault injection into otherwise valid messages, exhaustive in the offending value where the space is finite: all 15 bad version nibbles; all 65497 unassigned attribute types; all 65522 unknown message-type codes (in a second Message Type AVP and in a bare AVP list); all 65535 non-zero vendor ids (non-first record); all 65527 unknown error types; offset sizes beyond the input; for every kind with a minimum every shorter payload; ill-formed UTF-8 in every text field. The result must be Err([e]) with e the variant of that fault carrying exactly the offending value. Rendering: for every variant and all 65536 payload values to_string() must return a non-empty text; for AVP-related errors it must show (as a whole word) the variant name that a valid record with that attribute number actually decodes to, or the decimal number when unassigned. Distinct = distinct (fault, value); non-trivial = all. Boundary attribute numbers (and a sample of the others) are also rendered on a brand-new thread and must give the same text.",
    }
}

fn streams(t: Tier) -> Vec<StreamDef> {
    let all = t.n(65536, 65536, 30, 65536);
    let ex = t != Tier::Miri;
    vec![
        st("version", t.n(15 * 32, 15 * 32, 30, 15 * 32), ex),
        st("unknown_attr", all, ex),
        st("unknown_msgtype", all, ex),
        st("vendor", all, ex),
        st("error_type", all, ex),
        st("offset", t.n(6_000, 100_000, 20, 2_000), false),
        st("incomplete", t.n(39 * 27 * 4, 39 * 27 * 16, 40, 39 * 27 * 4), true),
        st("bad_utf8", t.n(6 * 8 * 40, 6 * 8 * 400, 20, 6 * 8 * 40), true),
        st("render", all, ex),
        st("text_grid", t.n(wire::TEXT_GRID, wire::TEXT_GRID, 40, wire::TEXT_GRID), ex),
    ]
}

fn floors(t: Tier) -> Vec<(String, u64)> {
    if t == Tier::Miri {
        return vec![("fault.matched".into(), 50)];
    }
    vec![
        ("fault.version".into(), 15 * 32),
        ("fault.unknown_attr".into(), 65497),
        ("fault.unknown_msgtype".into(), 65522),
        ("fault.unknown_msgtype.bare_list".into(), 65522),
        ("fault.vendor".into(), 65535),
        ("fault.error_type".into(), 65527),
        ("fault.offset".into(), 1000),
        ("fault.incomplete".into(), 300),
        ("fault.bad_utf8".into(), 500),
        ("render.checked".into(), 65536 * 8),
        ("render.assigned_names".into(), 39 * 3),
        ("render.unassigned_numbers".into(), 65497 * 3),
    ]
}

fn base_records(r: &mut crate::gen::Rng, before: usize, after: usize) -> (Vec<u8>, Vec<u8>) {
    let mut pre = wire::message_type_record(MESSAGE_TYPES[r.below(14) as usize].0);
    for _ in 0..before {
        pre.extend_from_slice(&senc::avp(&val::any_avp(r, 30)).unwrap());
    }
    let mut post = Vec::new();
    for _ in 0..after {
        post.extend_from_slice(&senc::avp(&val::any_avp(r, 30)).unwrap());
    }
    (pre, post)
}

fn expect_single(ctx: &mut Ctx, fault: &str, msg: &[u8], o: SOpts, want: DecodeError) {
    let run = exec::decode_msg(msg, Some(o), Rk::Slice);
    match &run.out {
        Out::Err(e) if e.len() == 1 && e[0] == want => {
            ctx.rep.bucket(&format!("fault.{}", fault));
            ctx.rep.bucket("fault.matched");
        }
        other => {
            let class = match other {
                Out::Err(e) if e.len() != 1 => format!("{}-errors", e.len()),
                Out::Err(e) => format!("got-{}", super::c05::first_err_name(e)),
                o => o.class().to_string(),
            };
            ctx.violate(
                format!("C20:{}:{}", fault, class),
                format!("single fault ({}) must give Err([{:?}]) but gave {}", fault, want, out_str(other)),
                w_input(msg, Some(o)),
            );
        }
    }
}

/// rendered text must contain `word` delimited by non-alphanumeric characters
fn contains_word(text: &str, word: &str) -> bool {
    let bytes = text.as_bytes();
    let mut from = 0;
    while let Some(i) = text[from..].find(word) {
        let s = from + i;
        let e = s + word.len();
        let left_ok = s == 0 || !bytes[s - 1].is_ascii_alphanumeric();
        let right_ok = e == bytes.len() || !bytes[e].is_ascii_alphanumeric();
        if left_ok && right_ok {
            return true;
        }
        from = s + 1;
    }
    false
}

/// Variant name the crate's dispatch gives a valid record of attribute `t` (None = not decodable)
fn dispatch_name(r: &mut crate::gen::Rng, t: u16) -> Option<String> {
    let fmt = format_of(t);
    let n = fmt.map(|f| min_len(f)).unwrap_or(4);
    let payload = wire::valid_payload(r, t, n.max(if t == 39 { 0 } else { 1 }));
    let rec = wire::raw_record(t, false, 0, &payload, true);
    // decode with the crate itself, keeping the crate value
    let boxed: Box<[u8]> = rec.into();
    let mut rd = rl2tp::common::SliceReader::from(&boxed);
    let res = crate::monitor::panic::catch(|| rl2tp::avp::AVP::try_read_greedy(&mut rd));
    match res {
        crate::monitor::panic::Ended::Returned(list) => match list.into_iter().next() {
            Some(Ok(a)) => Some(glue::avp_variant_name(&a)),
            _ => None,
        },
        _ => None,
    }
}

fn run(ctx: &mut Ctx) {
    let idx = ctx.idx;
    match ctx.stream {
        "version" => {
            let nib = {
                let n = (idx % 15) as u8;
                if n >= 2 {
                    n + 1
                } else {
                    n
                }
            };
            let mut w = wire::valid_message(&mut ctx.rng);
            w.bytes[1] = (w.bytes[1] & 0x0f) | (nib << 4);
            ctx.rep.case(format!("version:{}:{}", nib, idx / 15).as_bytes(), true);
            let o = SOpts { version: true, reserved: ctx.rng.bool(), unused: ctx.rng.bool() };
            let b = w.bytes.clone();
            expect_single(ctx, "version", &b, o, DecodeError::InvalidVersion(nib));
            // default entry point checks the version too
            let run = exec::decode_msg(&b, None, Rk::Slice);
            if !matches!(&run.out, Out::Err(e) if e.len() == 1 && e[0] == DecodeError::InvalidVersion(nib)) {
                ctx.violate("C20:version:try_read", format!("try_read gave {} for version nibble {}", out_str(&run.out), nib), w_input(&b, None));
            }
        }
        "unknown_attr" => {
            let x = if ctx.tier == Tier::Miri { ctx.rng.u16b() } else { idx as u16 };
            if format_of(x).is_some() {
                return;
            }
            ctx.rep.case(format!("unknown_attr:{}", x).as_bytes(), true);
            let (pre, post) = base_records(&mut ctx.rng, (idx % 3) as usize, (idx % 2) as usize);
            let mut body = pre;
            body.extend_from_slice(&wire::raw_record(x, false, 0, &ctx.rng.bytes_range(0, 12), true));
            body.extend_from_slice(&post);
            let msg = wire::control_around(&body, 1, 2, 3, 4);
            expect_single(ctx, "unknown_attr", &msg, SOpts::STRICT, DecodeError::UnknownAvp(x));
        }
        "unknown_msgtype" => {
            let x = if ctx.tier == Tier::Miri { ctx.rng.u16b() } else { idx as u16 };
            if message_type_assigned(x) {
                return;
            }
            ctx.rep.case(format!("unknown_msgtype:{}", x).as_bytes(), true);
            let (pre, post) = base_records(&mut ctx.rng, (idx % 3) as usize, (idx % 2) as usize);
            let mut body = pre;
            body.extend_from_slice(&wire::message_type_record(x));
            body.extend_from_slice(&post);
            let msg = wire::control_around(&body, 1, 2, 3, 4);
            expect_single(ctx, "unknown_msgtype", &msg, SOpts::STRICT, DecodeError::UnknownMessageType(x));
            // bare AVP list
            let rec = wire::message_type_record(x);
            let run = exec::decode_avps(&rec, Rk::Slice);
            match &run.out {
                Out::Ok(l) if l.len() == 1 && l[0] == Err(DecodeError::UnknownMessageType(x)) => ctx.rep.bucket("fault.unknown_msgtype.bare_list"),
                other => ctx.violate("C20:unknown_msgtype:bare-list", format!("try_read_greedy gave {} for message type code {}", out_str(other), x), w_input(&rec, None)),
            }
            if idx % 4096 == 5 {
                ctx.rep.sample(|| J::obj(vec![("fault", J::s("unknown message type in a second Message Type AVP")), ("code", J::U(x as u64)), ("input_hex", J::hex(&msg[..msg.len().min(64)]))]));
            }
        }
        "vendor" => {
            let v = if ctx.tier == Tier::Miri { ctx.rng.u16b().max(1) } else { idx as u16 };
            if v == 0 {
                return;
            }
            ctx.rep.case(format!("vendor:{}", v).as_bytes(), true);
            let (pre, post) = base_records(&mut ctx.rng, (idx % 3) as usize, (idx % 2) as usize);
            let mut body = pre;
            let attr = ctx.rng.range(0, 45) as u16;
            let hidden = ctx.rng.chance(1, 4);
            let mandatory = ctx.rng.bool();
            body.extend_from_slice(&wire::raw_record(attr, hidden, v, &ctx.rng.bytes_range(0, 12), mandatory));
            body.extend_from_slice(&post);
            let msg = wire::control_around(&body, 1, 2, 3, 4);
            expect_single(ctx, "vendor", &msg, SOpts::STRICT, DecodeError::UnsupportedVendorId(v));
        }
        "error_type" => {
            let x = if ctx.tier == Tier::Miri { ctx.rng.u16b() } else { idx as u16 };
            if error_type_assigned(x) {
                return;
            }
            ctx.rep.case(format!("error_type:{}", x).as_bytes(), true);
            let (pre, post) = base_records(&mut ctx.rng, (idx % 3) as usize, (idx % 2) as usize);
            let mut body = pre;
            let mut p = vec![0, (idx % 12) as u8, (x >> 8) as u8, x as u8];
            if idx % 2 == 0 {
                p.extend_from_slice(b"reason");
            }
            body.extend_from_slice(&wire::raw_record(1, false, 0, &p, true));
            body.extend_from_slice(&post);
            let msg = wire::control_around(&body, 1, 2, 3, 4);
            expect_single(ctx, "error_type", &msg, SOpts::STRICT, DecodeError::InvalidResultCodeErrorType(x));
        }
        "offset" => {
            // data message whose offset size exceeds what follows the offset field
            let shape = 4 | (ctx.rng.below(2) as u8) << 1 | (ctx.rng.below(2) as u8) << 3; // O set, no L
            let mut d = val::data(&mut ctx.rng, Some(shape), 40);
            let rem = d.data.len();
            let n = match ctx.rng.below(4) {
                0 => rem + 1,
                1 => 0xffff,
                _ => rem + 1 + ctx.rng.below(2000) as usize,
            }
            .min(0xffff);
            d.offset = Some(n as u16);
            let msg = senc::message(&SMsg::Data(d)).unwrap();
            ctx.rep.case(&msg, true);
            let o = SOpts::from_index(ctx.rng.below(8) as u8);
            expect_single(ctx, "offset", &msg, o, DecodeError::InvalidOffset(n as u16));
        }
        "incomplete" => {
            let k = (idx % 39) as usize;
            let short = ((idx / 39) % 27) as usize;
            let (attr, _, fmt) = ATTRS[k];
            let min = min_len(fmt);
            if short >= min {
                return;
            }
            ctx.rep.case(format!("incomplete:{}:{}:{}", attr, short, idx / (39 * 27)).as_bytes(), true);
            if attr == 0 {
                // a truncated *second* Message Type (the first must be valid)
                let (pre, _) = base_records(&mut ctx.rng, 0, 0);
                let mut body = pre;
                body.extend_from_slice(&wire::raw_record(0, false, 0, &ctx.rng.bytes(short), true));
                let msg = wire::control_around(&body, 1, 2, 3, 4);
                expect_single(ctx, "incomplete", &msg, SOpts::STRICT, DecodeError::IncompleteAVP(0));
                return;
            }
            let (pre, post) = base_records(&mut ctx.rng, (idx % 3) as usize, (idx % 2) as usize);
            let mut body = pre;
            body.extend_from_slice(&wire::raw_record(attr, false, 0, &ctx.rng.bytes(short), ctx.rng.bool()));
            body.extend_from_slice(&post);
            let msg = wire::control_around(&body, 1, 2, 3, 4);
            expect_single(ctx, "incomplete", &msg, SOpts::STRICT, DecodeError::IncompleteAVP(attr));
        }
        "bad_utf8" => {
            let kinds = [8u16, 21, 22, 23, 1, 12];
            let attr = kinds[(idx % 6) as usize];
            let bad: [&[u8]; 8] = [&[0xff], &[0xc0, 0x80], &[0xc1, 0xbf], &[0xe0, 0x80, 0x80], &[0xed, 0xa0, 0xbd, 0xed, 0xb8, 0x80], &[0xf4, 0x90, 0x80, 0x80], &[0xf5, 0x80, 0x80, 0x80], &[0xe2, 0x82]];
            let run: Vec<u8>;
            let b: &[u8] = if (idx / 48) % 5 == 4 {
                let class = *ctx.rng.pick(&[0x80u8, 0xbf, 0xa0, 0xc2, 0xe0, 0xf0, 0xff]);
                run = vec![class; ctx.rng.range(2, 70) as usize];
                &run
            } else {
                bad[((idx / 6) % 8) as usize]
            };
            let good_len = if ctx.rng.chance(1, 4) { ctx.rng.range(60, 300) as usize } else { ctx.rng.range(0, 10) as usize };
            let mut text = val::utf8_exact(&mut ctx.rng, good_len).into_bytes();
            // insert at a character boundary: at the start, or at the end
            if ctx.rng.bool() {
                text.extend_from_slice(b);
            } else {
                let mut t2 = b.to_vec();
                // a following ASCII octet makes truncated sequences ill-formed rather than merely short
                t2.push(b'a');
                t2.extend_from_slice(&text);
                text = t2;
            }
            let payload = match attr {
                1 => {
                    let mut p = vec![0, 1, 0, 6];
                    p.extend_from_slice(&text);
                    p
                }
                12 => {
                    let mut p = vec![0, 16, 3];
                    p.extend_from_slice(&text);
                    p
                }
                _ => text,
            };
            ctx.rep.case(format!("bad_utf8:{}:{:?}", attr, payload).as_bytes(), true);
            let (pre, post) = base_records(&mut ctx.rng, (idx % 3) as usize, (idx % 2) as usize);
            let mut body = pre;
            body.extend_from_slice(&wire::raw_record(attr, false, 0, &payload, true));
            body.extend_from_slice(&post);
            let msg = wire::control_around(&body, 1, 2, 3, 4);
            expect_single(ctx, "bad_utf8", &msg, SOpts::STRICT, DecodeError::InvalidUtf8(attr));
        }
        "text_grid" => {
            // one ill-formed sequence (or none) at every distance from the start, from the end and
            // from every power-of-two offset of texts of 9..1013 octets
            let gi = if ctx.tier == Tier::Miri { ctx.rng.below(wire::TEXT_GRID) } else { idx };
            let (attr, len, bad, pos) = wire::text_grid_dims(gi);
            let msg = wire::text_grid_case(&mut ctx.rng, gi);
            ctx.rep.case(format!("text_grid:{}", gi).as_bytes(), true);
            if bad == 0 {
                let run = exec::decode_msg(&msg, Some(SOpts::STRICT), Rk::Slice);
                match &run.out {
                    Out::Ok(_) => ctx.rep.bucket("text_grid.wellformed.ok"),
                    other => ctx.violate(
                        format!("C20:text_grid:wellformed-rejected:{}", other.class()),
                        format!("a well-formed ASCII text of {} octets in attribute {} is reported as {}", len, attr, out_str(other)),
                        w_input(&msg, Some(SOpts::STRICT)),
                    ),
                }
            } else {
                let _ = pos;
                expect_single(ctx, "bad_utf8", &msg, SOpts::STRICT, DecodeError::InvalidUtf8(attr));
            }
        }
        "render" => {
            let x = if ctx.tier == Tier::Miri { ctx.rng.u16b() } else { idx as u16 };
            ctx.rep.case(format!("render:{}", x).as_bytes(), true);
            let disp = dispatch_name(&mut ctx.rng, x);
            // the reference table and the crate's dispatch must agree on what is assigned (C16
            // judges that; here it only selects the expectation)
            let expected_word = match &disp {
                Some(n) => n.clone(),
                None => format!("{}", x),
            };
            // boundary numbers (and a sample of the others) are rendered on a brand-new thread, so
            // that theirs is the first rendering that thread ever does
            let fresh = x <= 41 || x >= 65_533 || x == 255 || x == 256 || idx % 512 == 3;
            let fresh_texts: Option<Vec<Option<String>>> = if fresh && ctx.tier != Tier::Miri {
                ctx.rep.bucket("render.on_fresh_thread");
                std::thread::spawn(move || {
                    (0..27u8)
                        .map(|k| {
                            let k2 = (k + 26) % 27; // start with an AVP-related variant
                            let e = super::c19::error_variant(k2, x);
                            match crate::monitor::panic::catch(|| e.to_string()) {
                                crate::monitor::panic::Ended::Returned(s) => Some(s),
                                _ => None,
                            }
                        })
                        .collect::<Vec<_>>()
                })
                .join()
                .ok()
            } else {
                None
            };
            for k in 0..27u8 {
                let e = super::c19::error_variant(k, x);
                if let Some(ft) = &fresh_texts {
                    // same text on a fresh thread as on this (well-used) one
                    let here = crate::monitor::panic::catch(|| e.to_string());
                    let there = &ft[((k as usize) + 1) % 27];
                    if let crate::monitor::panic::Ended::Returned(h) = here {
                        if there.as_ref() != Some(&h) {
                            ctx.violate("C20:render:depends-on-thread-history", format!("{:?} renders as {:?} on a thread that has rendered errors before, and as {:?} when it is the first thing a new thread renders", e, h, there), J::obj(vec![("error", J::s(format!("{:?}", e)))]));
                        }
                    }
                }
                let txt = match crate::monitor::panic::catch(|| e.to_string()) {
                    crate::monitor::panic::Ended::Returned(s) => s,
                    crate::monitor::panic::Ended::Panicked(p) => {
                        ctx.violate(format!("C20:render:panic:{}", p.class()), format!("to_string() of {:?} panicked: {}", e, p.message), J::obj(vec![("error", J::s(format!("{:?}", e)))]));
                        continue;
                    }
                    _ => unreachable!(),
                };
                ctx.rep.bucket("render.checked");
                if txt.trim().is_empty() {
                    ctx.violate("C20:render:empty", format!("{:?} renders as an empty text", e), J::obj(vec![("error", J::s(format!("{:?}", e)))]));
                }
                let avp_related = matches!(e, DecodeError::IncompleteAVP(_) | DecodeError::InvalidUtf8(_) | DecodeError::AVPReadError(_));
                if avp_related && k < 26 {
                    if contains_word(&txt, &expected_word) {
                        if disp.is_some() {
                            ctx.rep.bucket("render.assigned_names");
                        } else {
                            ctx.rep.bucket("render.unassigned_numbers");
                        }
                    } else {
                        ctx.violate(
                            format!("C20:render:wrong-name:{}", if disp.is_some() { format!("attr{}", x) } else { "unassigned".to_string() }),
                            format!("{:?} renders as {:?}; a record with attribute type {} {} so the text must show {:?}", e, txt, x, match &disp { Some(n) => format!("decodes to {}", n), None => "is not decodable".to_string() }, expected_word),
                            J::obj(vec![("error", J::s(format!("{:?}", e))), ("rendered", J::s(txt.clone()))]),
                        );
                    }
                }
            }
            // the same errors through the other ways `Display` can be asked to render: the alternate
            // flag, a width with alignment, and a `&dyn Display` written into an existing buffer
            for e in [DecodeError::IncompleteAVP(x), DecodeError::InvalidUtf8(x), DecodeError::AVPReadError(x)] {
                let plain = match crate::monitor::panic::catch(|| e.to_string()) {
                    crate::monitor::panic::Ended::Returned(s) => s,
                    _ => continue,
                };
                let forms: [(&str, crate::monitor::panic::Ended<String>); 3] = [
                    ("alternate {:#}", crate::monitor::panic::catch(|| format!("{:#}", e))),
                    ("width {:>90}", crate::monitor::panic::catch(|| format!("{:>90}", e))),
                    ("dyn Display", crate::monitor::panic::catch(|| {
                        use std::fmt::Write;
                        let d: &dyn std::fmt::Display = &e;
                        let mut s = String::from("error: ");
                        let _ = write!(s, "{}", d);
                        s
                    })),
                ];
                for (how, r) in forms {
                    match r {
                        crate::monitor::panic::Ended::Returned(t) => {
                            ctx.rep.bucket("render.other_forms");
                            if !contains_word(&t, &expected_word) && contains_word(&plain, &expected_word) {
                                ctx.violate(
                                    "C20:render:wrong-name:other-format",
                                    format!("{:?} renders as {:?} with to_string() but as {:?} through {}; the text must show {:?}", e, plain, t, how, expected_word),
                                    J::obj(vec![("error", J::s(format!("{:?}", e))), ("rendered", J::s(t.clone())), ("form", J::s(how))]),
                                );
                            }
                        }
                        crate::monitor::panic::Ended::Panicked(p) => ctx.violate(format!("C20:render:panic:{}", p.class()), format!("rendering {:?} through {} panicked: {}", e, how, p.message), J::obj(vec![("error", J::s(format!("{:?}", e)))])),
                        _ => {}
                    }
                }
            }
            if idx % 8000 == 7 || x < 2 {
                let e = DecodeError::IncompleteAVP(x);
                ctx.rep.sample(|| J::obj(vec![("error", J::s(format!("{:?}", e))), ("rendered", J::s(e.to_string())), ("dispatch", J::s(format!("{:?}", disp)))]));
            }
        }
        _ => unreachable!(),
    }
}
