//! C07 Every emitted length field is exact; oversize values are refused, not truncated.

use super::common::*;
use super::*;
use crate::exec::{self, Wk};
use crate::gen::val;
use crate::glue;
use crate::report::J;
use crate::spec::model::*;
use rl2tp::avp::AVP;

pub fn def() -> PropDef {
    PropDef {
        id: "C07",
        num: 7,
        streams,
        run,
        floors,
        rule: "an independent length walker is run over everything the encoder returns: control Length = octets emitted, every AVP 10-bit length = its extent, AVPs tile the body, 6 + get_length() = octets written. Values include every payload size 1000..1040 for every variable-size kind (both sides of the 1023 limit), control messages crossing 65535 octets, hide() of AVPs whose padded value crosses 1017. For oversize values the only acceptable outcomes are a panic or exact lengths. Distinct = distinct values; non-trivial = value with a variable-size part.",
    }
}

const VAR_ATTRS: [u16; 16] = [1, 7, 8, 11, 12, 21, 22, 23, 26, 27, 28, 30, 31, 33, 37, 0xffff];

fn streams(t: Tier) -> Vec<StreamDef> {
    vec![
        st("avp_inrange", t.n(40_000, 2_000_000, 100, 10_000), false),
        st("avp_limit", t.n(16 * 41 * 2, 16 * 41 * 8, 40, 16 * 41 * 2), true),
        st("msg", t.n(8_000, 300_000, 20, 2_000), false),
        st("msg_limit", t.n(96, 1600, 1, 32), false),
        st("hide_limit", t.n(4_000, 200_000, 20, 1_000), false),
        st("colossal_value", t.n(4, 8, 0, 0), true),
        st("msg_many", t.n(2 * MANY.len() as u64, 4 * MANY.len() as u64, 0, MANY.len() as u64), true),
        st("few_large", t.n(FEW_N * 12, FEW_N * 12, 6, FEW_N * 12), true),
    ]
}

fn floors(t: Tier) -> Vec<(String, u64)> {
    if t == Tier::Miri {
        return vec![("walk.ok".into(), 20)];
    }
    vec![
        ("walk.ok".into(), 10_000),
        ("oversize.avp.refused".into(), 100),
        ("avp.at_limit.ok".into(), 16),
        ("oversize.msg.refused".into(), 4),
        ("msg.at_limit.ok".into(), 1),
        ("hide.refused_or_exact".into(), 100),
        ("get_length.checked".into(), 10_000),
    ]
}

/// Build a crate AVP of attribute `attr` whose payload is exactly `n` octets (n >= 4 assumed
/// for the structured kinds). 0xffff = opaque hidden.
fn sized_avp(r: &mut crate::gen::Rng, attr: u16, n: usize) -> SAvp {
    match attr {
        0xffff => SAvp { attr: r.range(0, 40) as u16, hidden: true, body: SBody::Bytes(r.bytes(n)) },
        1 => SAvp { attr, hidden: false, body: SBody::Result { code: 2, err: Some((6, Some(val::utf8_exact(r, n - 4)))) } },
        12 => SAvp { attr, hidden: false, body: SBody::Q931 { code: 1, msg: 2, adv: Some(val::utf8_exact(r, n - 3)) } },
        8 | 21 | 22 | 23 => SAvp { attr, hidden: false, body: SBody::Str(val::utf8_exact(r, n)) },
        _ => SAvp { attr, hidden: false, body: SBody::Bytes(r.bytes(n)) },
    }
}

fn check_avp(ctx: &mut Ctx, a: &SAvp, ca: &AVP, oversize: bool) {
    let desc = format!("attr {} hidden {} payload {} octets", a.attr, a.hidden, crate::spec::encode::payload(a).len());
    let gl = exec::get_length(ca);
    let base = *ctx.rng.pick(&[65_536usize, 0x1_0000_0000, 0x1_0000_0400, 1 << 40]);
    for wk in [Wk::Vec, Wk::Recording, Wk::OffsetLenient(base), Wk::WhileUnwinding] {
        match exec::encode_avp(ca, wk) {
            exec::EncOut::Ok(e) => match walk_avps(&e.bytes) {
                Ok(recs) if recs.len() == 1 => {
                    ctx.rep.bucket("walk.ok");
                    if oversize {
                        // returned with consistent lengths although > 1023 cannot be represented:
                        // the walker can only succeed if the octets really are that long
                        if e.bytes.len() > 1023 {
                            ctx.violate("C07:avp:oversize-accepted", format!("AVP of {} octets was emitted", e.bytes.len()), J::obj(vec![("value", J::s(desc.clone()))]));
                        }
                    }
                    if e.bytes.len() == 1023 {
                        ctx.rep.bucket("avp.at_limit.ok");
                    }
                    match &gl {
                        Ok(n) => {
                            ctx.rep.bucket("get_length.checked");
                            if 6 + n != e.bytes.len() {
                                ctx.violate(
                                    format!("C07:get_length:attr{}", a.attr),
                                    format!("6 + get_length() = {} but {} octets were written ({:?})", 6 + n, e.bytes.len(), a),
                                    J::obj(vec![("value", J::s(format!("{:?}", a)))]),
                                );
                            }
                        }
                        Err(p) => ctx.violate(format!("C07:get_length:panic:{}", p.class()), format!("get_length panicked: {}", p.message), J::obj(vec![("value", J::s(desc.clone()))])),
                    }
                }
                Ok(recs) => ctx.violate("C07:avp:tiling", format!("one AVP was written but the walker finds {} records", recs.len()), J::obj(vec![("value", J::s(desc.clone())), ("encoded_hex", J::hex(&e.bytes[..e.bytes.len().min(64)]))])),
                Err(why) => ctx.violate(
                    format!("C07:avp:length-field:{}", if oversize { "oversize" } else { "inrange" }),
                    format!("encode returned normally but {} ({} octets emitted, {})", why, e.bytes.len(), desc),
                    J::obj(vec![("value", J::s(desc.clone())), ("encoded_head_hex", J::hex(&e.bytes[..e.bytes.len().min(16)])), ("emitted", J::U(e.bytes.len() as u64))]),
                ),
            },
            exec::EncOut::Panic(p) => {
                if oversize {
                    ctx.rep.bucket("oversize.avp.refused");
                } else {
                    // a refusal is always allowed by this property (C03 / C06 judge in-range values)
                    let _ = p;
                    ctx.rep.bucket("inrange.avp.refused");
                }
            }
        }
    }
}

fn check_msg(ctx: &mut Ctx, c: &SControl, expected_total: usize) {
    let m = SMsg::Control(c.clone());
    let cm = glue::msg_to_crate(&m).unwrap();
    let oversize = expected_total > 65535;
    let desc = format!("control message, {} AVPs, {} octets expected", c.avps.len(), expected_total);
    let base = *ctx.rng.pick(&[65_536usize, 0x1_0000_0000, 0x1_0000_0400, 1 << 40]);
    for wk in [Wk::Vec, Wk::Recording, Wk::OffsetLenient(base), Wk::WhileUnwinding] {
        match exec::encode_msg(&cm, wk) {
            exec::EncOut::Ok(e) => match walk_control(&e.bytes) {
                Ok(recs) => {
                    ctx.rep.bucket("walk.ok");
                    if recs.len() != c.avps.len() {
                        ctx.violate("C07:msg:tiling", format!("{} AVPs written but the walker finds {}", c.avps.len(), recs.len()), J::obj(vec![("value", J::s(desc.clone()))]));
                    }
                    if e.bytes.len() == 65535 {
                        ctx.rep.bucket("msg.at_limit.ok");
                    }
                }
                Err(why) => ctx.violate(
                    format!("C07:msg:length-field:{}", if oversize { "oversize" } else { "inrange" }),
                    format!("encode returned normally but {} ({})", why, desc),
                    J::obj(vec![("value", J::s(desc.clone())), ("encoded_head_hex", J::hex(&e.bytes[..e.bytes.len().min(16)])), ("emitted", J::U(e.bytes.len() as u64))]),
                ),
            },
            exec::EncOut::Panic(p) => {
                if oversize {
                    ctx.rep.bucket("oversize.msg.refused");
                } else {
                    let _ = p;
                    ctx.rep.bucket("inrange.msg.refused");
                }
            }
        }
    }
}

/// AVP counts for messages that are oversize through the *number* of their AVPs rather than
/// through any single one: both sides of the 65 535-octet limit with minimal records, and counts
/// at, around and beyond 2^16 (and 2^17, 2^18, 2^20) whose low bits are small.
const MANY: [usize; 22] = [
    10_920, 10_921, 10_922, 16_384, 32_767, 32_768, 32_769, 65_534, 65_535, 65_536, 65_537, 65_540, 65_568, 65_600, 65_601, 70_000, 131_071, 131_072, 131_073, 131_100, 262_144,
    (1 << 20) + 3,
];

/// number of AVP counts tried by `few_large` (2..=90)
const FEW_N: u64 = 89;

fn run(ctx: &mut Ctx) {
    match ctx.stream {
        "few_large" => {
            // n AVPs of (nearly) equal size whose total sits just below, at and just above the
            // 65 535-octet limit, for every n from 2 to 90: oversize through a *few large* AVPs
            // (65 maximal AVPs are the fewest that can overflow), complementing `msg_many`
            let n = 2 + (ctx.idx % FEW_N) as usize;
            let target: usize = [65_535usize, 65_536, 65_537, 65_535 - 7, 66_000, usize::MAX][(ctx.idx / FEW_N) as usize % 6];
            // every other pass: no Message Type in front (the encoder does not ask for one), so that
            // all n AVPs can be maximal - 65 of them are the fewest that overflow
            let with_mt = (ctx.idx / (FEW_N * 6)) % 2 == 0;
            let head = if with_mt { 8 } else { 0 };
            let k = if with_mt { n - 1 } else { n };
            let target = if target == usize::MAX { 12 + head + k * 1023 } else { target };
            let rest = target.saturating_sub(12 + head);
            if rest < 7 * k || rest > 1023 * k {
                return;
            }
            let mut avps = if with_mt { vec![SAvp { attr: 0, hidden: false, body: SBody::U16(2) }] } else { Vec::new() };
            let (q, rem) = (rest / k, rest % k);
            for i in 0..k {
                let sz = q + if i < rem { 1 } else { 0 };
                let attr = [11u16, 7, 26, 33][i % 4];
                avps.push(SAvp { attr, hidden: false, body: SBody::Bytes(ctx.rng.bytes(sz - 6)) });
            }
            let total = 12 + avps.iter().map(|a| 6 + crate::spec::encode::payload(a).len()).sum::<usize>();
            let c = SControl { length: total as u16, tunnel: 1, session: 2, ns: 3, nr: 4, avps };
            ctx.rep.case(format!("few:{}:{}", n, total).as_bytes(), true);
            ctx.rep.bucket("few_large.cases");
            check_msg(ctx, &c, total);
        }
        "msg_many" => {
            let n = MANY[(ctx.idx as usize) % MANY.len()];
            if n > 300_000 && ctx.build != "rel" {
                return;
            }
            let variant = ctx.idx as usize / MANY.len();
            let mut avps = Vec::with_capacity(n);
            for i in 0..n {
                // 6-octet records (Sequencing Required); every other variant mixes in 8- and 10-octet ones
                let a = if variant % 2 == 1 && i % 7 == 3 {
                    SAvp { attr: 10, hidden: false, body: SBody::U16(i as u16) }
                } else if variant % 2 == 1 && i % 11 == 5 {
                    SAvp { attr: 24, hidden: false, body: SBody::U32(i as u32) }
                } else if i == 0 {
                    SAvp { attr: 0, hidden: false, body: SBody::U16(1) }
                } else {
                    SAvp { attr: 39, hidden: false, body: SBody::Empty }
                };
                avps.push(a);
            }
            let total = 12 + avps.iter().map(|a| 6 + crate::spec::encode::payload(a).len()).sum::<usize>();
            let c = SControl { length: total as u16, tunnel: 1, session: 2, ns: 3, nr: 4, avps };
            ctx.rep.case(format!("many:{}:{}", n, variant).as_bytes(), true);
            ctx.rep.bucket("msg_many.cases");
            check_msg(ctx, &c, total);
        }
        "avp_inrange" => {
            let a = val::any_avp(&mut ctx.rng, 1017);
            let ca = glue::avp_to_crate(&a).unwrap();
            ctx.rep.case(format!("{:?}", a).as_bytes(), crate::spec::encode::payload(&a).len() > 0);
            check_avp(ctx, &a, &ca, false);
        }
        "avp_limit" => {
            let k = (ctx.idx % 16) as usize;
            let n = 1000 + ((ctx.idx / 16) % 41) as usize;
            let a = sized_avp(&mut ctx.rng, VAR_ATTRS[k], n);
            let ca = glue::avp_to_crate(&a).unwrap();
            ctx.rep.case(format!("{}:{}:{}", VAR_ATTRS[k], n, ctx.idx / (16 * 41)).as_bytes(), true);
            check_avp(ctx, &a, &ca, n + 6 > 1023);
            ctx.rep.sample(|| J::obj(vec![("attribute_type", J::U(a.attr as u64)), ("hidden", J::B(a.hidden)), ("payload_octets", J::U(n as u64)), ("oversize", J::B(n + 6 > 1023))]));
        }
        "colossal_value" => {
            // one AVP whose value is larger than 2^32 octets (untouched zero pages; a writer that
            // only counts): its size does not fit any narrower integer, and it must be refused -
            // or, if the encoder returns, the length field must describe what was emitted
            if ctx.build != "rel" {
                return;
            }
            const SIZES: [usize; 8] = [(1 << 32) + 2, (1 << 32) + 1017, (1 << 32) + 1018, (1 << 32) - 6 + 7, (1 << 31) + 5, (1 << 32) + 0, (2 << 32) + 10, (1 << 32) + 600];
            let n = SIZES[(ctx.idx % 8) as usize];
            ctx.rep.case(format!("colossal:{}", n).as_bytes(), true);
            ctx.rep.bucket("colossal_value.cases");
            let out = crate::monitor::panic::catch(|| {
                use rl2tp::avp::types as t;
                let a = AVP::HostName(t::HostName { value: vec![0u8; n] });
                let mut w = crate::monitor::writer::NullWriter::default();
                a.write(&mut w);
                (w.len, w.head.clone())
            });
            match out {
                crate::monitor::panic::Ended::Panicked(_) => ctx.rep.bucket("colossal_value.refused"),
                crate::monitor::panic::Ended::Returned((len, head)) => {
                    let field = if head.len() >= 2 { (((head[0] as usize) << 8) | head[1] as usize) & 0x3ff } else { 0 };
                    ctx.violate(
                        "C07:avp:oversize-accepted:beyond-4GiB",
                        format!("a Host Name AVP with a value of {} octets was emitted ({} octets written) with a length field of {}", n, len, field),
                        J::obj(vec![("value_octets", J::U(n as u64)), ("emitted", J::U(len as u64)), ("encoded_head_hex", J::hex(&head[..head.len().min(16)]))]),
                    );
                }
                _ => unreachable!(),
            }
        }
        "msg" => {
            let (max_avps, maxp) = if ctx.rng.chance(1, 10) { (70, 1017) } else { (10, 80) };
            let c = val::control(&mut ctx.rng, max_avps, maxp);
            let mut c = c;
            if ctx.rng.bool() {
                c.length = ctx.rng.u16b();
            }
            let total = 12 + c.avps.iter().map(|a| 6 + crate::spec::encode::payload(a).len()).sum::<usize>();
            ctx.rep.case(format!("{:?}", c).as_bytes(), !c.avps.is_empty());
            check_msg(ctx, &c, total);
        }
        "msg_limit" => {
            // totals on both sides of 65535
            let deltas: [i64; 8] = [0, -7, 7, 8, 21, 1023, 2000, -1023];
            let d = deltas[(ctx.idx % 8) as usize];
            let target = (65535i64 + d) as usize;
            let mut c = val::control_exact(&mut ctx.rng, target.min(65535));
            if target > 65535 {
                let extra = target - 65535;
                // add one more record of `extra` octets (>= 7)
                c.avps.push(SAvp { attr: 7, hidden: false, body: SBody::Bytes(ctx.rng.bytes(extra - 6)) });
            }
            let total = 12 + c.avps.iter().map(|a| 6 + crate::spec::encode::payload(a).len()).sum::<usize>();
            // the public length member is an input the encoder must not trust: stale, zero, the
            // true size truncated to 16 bits (what a decoded-then-grown message carries), random
            c.length = match ctx.rng.below(4) {
                0 => 0,
                1 => total as u16,
                2 => c.length,
                _ => ctx.rng.u16b(),
            };
            ctx.rep.case(format!("limit:{}:{}:{}", total, c.length, ctx.idx).as_bytes(), true);
            check_msg(ctx, &c, total);
        }
        "hide_limit" => {
            // AVPs whose hidden form is at or beyond the largest encodable value (1017)
            let attr = *ctx.rng.pick(&[7u16, 8, 11, 26, 33, 37, 1, 12]);
            let n = ctx.rng.range(960, 1030) as usize;
            let a = sized_avp(&mut ctx.rng, attr, n);
            let ca = glue::avp_to_crate(&a).unwrap();
            let lp = ctx.rng.bytes_range(0, 40);
            let secret = val::secret(&mut ctx.rng);
            let mut ap = [0u8; 16];
            ap.copy_from_slice(&ctx.rng.bytes(16));
            ctx.rep.case(format!("hide:{}:{}:{}", attr, n, lp.len()).as_bytes(), true);
            match exec::hide(ca, &secret, [1, 2, 3, 4], &lp, &ap) {
                Err(_) => ctx.rep.bucket("hide.refused_or_exact"),
                Ok(h) => {
                    let hs = glue::avp_to_spec(&h);
                    let padded = 16 * ((2 + n + lp.len() + 15) / 16);
                    let oversize = padded + 6 > 1023 || n + 6 > 1023;
                    match exec::encode_avp(&h, Wk::Vec) {
                        exec::EncOut::Panic(_) => {
                            if oversize {
                                ctx.rep.bucket("hide.refused_or_exact");
                            } else {
                                ctx.rep.bucket("inrange.hide.refused");
                            }
                        }
                        exec::EncOut::Ok(e) => match walk_avps(&e.bytes) {
                            Ok(_) if e.bytes.len() <= 1023 => ctx.rep.bucket("hide.refused_or_exact"),
                            Ok(_) => ctx.violate("C07:hide:oversize-accepted", format!("hidden AVP of {} octets emitted", e.bytes.len()), J::obj(vec![("attr", J::U(attr as u64)), ("payload", J::U(n as u64))])),
                            Err(why) => ctx.violate("C07:hide:length-field", format!("hidden AVP emitted with a wrong length: {} ({:?} value octets)", why, match &hs.body { SBody::Bytes(b) => b.len(), _ => 0 }), J::obj(vec![("attr", J::U(attr as u64)), ("payload", J::U(n as u64)), ("lp", J::U(lp.len() as u64))])),
                        },
                    }
                }
            }
        }
        _ => unreachable!(),
    }
}
