//! C18 SliceReader and VecWriter behave as a plain cursor and a plain byte vector.

use super::*;
use crate::monitor::panic::{catch, Ended};
use crate::report::J;
use rl2tp::common::{Reader, SliceReader, VecWriter, Writer};

pub fn def() -> PropDef {
    PropDef {
        id: "C18",
        num: 18,
        streams,
        run,
        floors,
        rule: "random operation sequences checked step by step against a reference cursor (slice, position) and a reference Vec<u8>: reads of 1/2/4/8 octets return the next octets big-endian and advance exactly; skip(n) and subreader(n) (n <= remaining; zero, exact-fit and last-octet cases forced) cover exactly n; bytes(n) with n > remaining returns None without panicking and leaves the cursor where it was; write_bytes_at inside the data overwrites in place and never changes the length; outside (incl. offset+len overflow) it is refused by panic and the buffer is unchanged. Inputs live in exact-size heap blocks (Miri / ASan watch the unchecked reads and the raw copy). Distinct = distinct (data, operation sequence); non-trivial = sequence with at least 3 operations. Also: requests that would look in-range if truncated to 8/16/31/32/48/63 bits, buffers of 255..200000 octets with up to 150 operations, writer lengths just below every power of two up to 2^17.",
    }
}

fn streams(t: Tier) -> Vec<StreamDef> {
    vec![st("reader_ops", t.n(60_000, 3_000_000, 200, 20_000), false), st("writer_ops", t.n(60_000, 3_000_000, 200, 20_000), false), st("bytes_overrun", t.n(41 * 45, 41 * 45, 64, 41 * 45), true)]
}

fn floors(t: Tier) -> Vec<(String, u64)> {
    if t == Tier::Miri {
        return vec![("reader.ops".into(), 500), ("writer.ops".into(), 500)];
    }
    vec![
        ("reader.ops".into(), 200_000),
        ("writer.ops".into(), 200_000),
        ("reader.bytes.none".into(), 5000),
        ("reader.bytes.some".into(), 5000),
        ("reader.sub".into(), 5000),
        ("reader.exact_fit".into(), 2000),
        ("writer.at.inrange".into(), 5000),
        ("writer.at.refused".into(), 2000),
        ("writer.at.overflowing_offset".into(), 200),
        ("writer.at.last_octet".into(), 200),
        ("reader.large_buffer".into(), 1000),
        ("writer.large_buffer".into(), 1000),
        ("writer.clone_from".into(), 1000),
    ]
}

#[derive(Clone, Debug)]
enum ROp {
    U8,
    U16,
    U32,
    U64,
    Skip(usize),
    Sub(usize),
    Bytes(usize),
    Len,
    IsEmpty,
}

fn reader_case(ctx: &mut Ctx) {
    let miri = ctx.tier == Tier::Miri;
    let n = match ctx.rng.below(24) {
        0..=3 => ctx.rng.below(4) as usize,
        // outside the small envelope: buffers around 2^8, 2^16 and beyond
        4 if !miri => *ctx.rng.pick(&[255usize, 256, 257, 4096, 65_535, 65_536, 65_537, 70_000, 200_000]),
        5 if !miri => ctx.rng.range(64, 5000) as usize,
        _ => ctx.rng.range(0, 64) as usize,
    };
    if n > 64 {
        ctx.rep.bucket("reader.large_buffer");
    }
    let data: Box<[u8]> = ctx.rng.bytes(n).into();
    // plan operations against the model, respecting preconditions of the unchecked ones
    let mut ops = Vec::new();
    let mut rem = n;
    let k = if n > 64 || ctx.rng.chance(1, 20) { ctx.rng.range(10, 120) } else { ctx.rng.range(1, 14) };
    for _ in 0..k {
        let op = match ctx.rng.below(12) {
            0 if rem >= 1 => ROp::U8,
            1 if rem >= 2 => ROp::U16,
            2 if rem >= 4 => ROp::U32,
            3 if rem >= 8 => ROp::U64,
            4 => ROp::Skip(match ctx.rng.below(5) {
                0 => 0,
                1 => rem,
                2 => rem.saturating_sub(ctx.rng.below(9) as usize),
                _ => ctx.rng.below(rem as u64 + 1) as usize,
            }),
            5 => ROp::Sub(match ctx.rng.below(4) {
                0 => 0,
                1 => rem,
                _ => ctx.rng.below(rem as u64 + 1) as usize,
            }),
            6 | 7 => ROp::Bytes(match ctx.rng.below(8) {
                0 => 0,
                1 => rem,
                2 => rem + 1,
                3 => rem + ctx.rng.range(1, 1000) as usize,
                4 => usize::MAX - ctx.rng.below(3) as usize,
                // a request that would look in-range if it were truncated to 8/16/31/32/48/63 bits
                5 | 6 => {
                    let k = *ctx.rng.pick(&[8u32, 16, 31, 32, 32, 33, 48, 63]);
                    let hi = (1 + ctx.rng.below(3) as usize).wrapping_shl(k);
                    let lo = ctx.rng.below(rem as u64 + 1) as usize;
                    let v = hi.wrapping_add(lo);
                    if v <= rem { rem + 1 } else { v }
                }
                _ => ctx.rng.below(rem as u64 + 1) as usize,
            }),
            8 => ROp::Len,
            9 => ROp::IsEmpty,
            _ => {
                if rem >= 1 {
                    ROp::U8
                } else {
                    ROp::Len
                }
            }
        };
        match &op {
            ROp::U8 => rem -= 1,
            ROp::U16 => rem -= 2,
            ROp::U32 => rem -= 4,
            ROp::U64 => rem -= 8,
            ROp::Skip(x) | ROp::Sub(x) => rem -= x,
            ROp::Bytes(x) if *x <= rem => rem -= x,
            _ => {}
        }
        ops.push(op);
    }
    let mut key = data.to_vec();
    key.extend_from_slice(format!("{:?}", ops).as_bytes());
    ctx.rep.case(&key, ops.len() >= 3);
    let wit = J::obj(vec![("data_hex", J::hex(&data)), ("ops", J::s(format!("{:?}", ops)))]);

    let res = catch(|| {
        let mut r = SliceReader::from(&data);
        let mut pos = 0usize; // model cursor
        let mut log: Vec<String> = Vec::new();
        let mut stats: Vec<&'static str> = Vec::new();
        for (i, op) in ops.iter().enumerate() {
            let before = data.len() - pos;
            let mut fail = |what: String| log.push(format!("op {} {:?}: {}", i, op, what));
            match op {
                ROp::U8 => {
                    let v = unsafe { r.read_u8_unchecked() };
                    if v != data[pos] {
                        fail(format!("read {:#x}, next octet is {:#x}", v, data[pos]));
                    }
                    pos += 1;
                }
                ROp::U16 => {
                    let v = unsafe { r.read_u16_be_unchecked() };
                    let want = u16::from_be_bytes([data[pos], data[pos + 1]]);
                    if v != want {
                        fail(format!("read {:#x}, expected big-endian {:#x}", v, want));
                    }
                    pos += 2;
                }
                ROp::U32 => {
                    let v = unsafe { r.read_u32_be_unchecked() };
                    let want = u32::from_be_bytes(data[pos..pos + 4].try_into().unwrap());
                    if v != want {
                        fail(format!("read {:#x}, expected big-endian {:#x}", v, want));
                    }
                    pos += 4;
                }
                ROp::U64 => {
                    let v = unsafe { r.read_u64_be_unchecked() };
                    let want = u64::from_be_bytes(data[pos..pos + 8].try_into().unwrap());
                    if v != want {
                        fail(format!("read {:#x}, expected big-endian {:#x}", v, want));
                    }
                    pos += 8;
                }
                ROp::Skip(x) => {
                    r.skip_bytes(*x);
                    pos += x;
                }
                ROp::Sub(x) => {
                    let mut s = r.subreader(*x);
                    stats.push("reader.sub");
                    if s.len() != *x || s.is_empty() != (*x == 0) {
                        fail(format!("sub-reader reports {} octets", s.len()));
                    }
                    // it must cover exactly data[pos..pos+x]
                    match s.bytes(*x) {
                        Some(b) if b == &data[pos..pos + x] => {}
                        other => fail(format!("sub-reader content {:?} differs from the requested range", other)),
                    }
                    if !s.is_empty() {
                        fail("sub-reader not exhausted after reading its length".into());
                    }
                    pos += x;
                }
                ROp::Bytes(x) => {
                    let got = r.bytes(*x);
                    if *x <= before {
                        stats.push("reader.bytes.some");
                        if *x == before {
                            stats.push("reader.exact_fit");
                        }
                        match got {
                            Some(b) if b == &data[pos..pos + x] => {}
                            other => fail(format!("bytes({}) with {} remaining gave {:?}", x, before, other)),
                        }
                        pos += x;
                    } else {
                        stats.push("reader.bytes.none");
                        if got.is_some() {
                            fail(format!("bytes({}) with only {} remaining returned data", x, before));
                        }
                    }
                }
                ROp::Len => {
                    // the reader is Copy: a copy must be the same cursor and must not move the original
                    let mut c = r;
                    if c != r || c.len() != before {
                        fail(format!("a copy of the reader has {} octets left", c.len()));
                    }
                    if before > 0 {
                        let x = unsafe { c.read_u8_unchecked() };
                        if x != data[pos] || r.len() != before {
                            fail("reading from a copy disturbed the original or returned the wrong octet".into());
                        }
                    }
                    if r.len() != before {
                        fail(format!("len() = {} expected {}", r.len(), before));
                    }
                }
                ROp::IsEmpty => {
                    if r.is_empty() != (before == 0) {
                        fail(format!("is_empty() = {} with {} remaining", r.is_empty(), before));
                    }
                }
            }
            // position check after every step
            if r.len() != data.len() - pos {
                log.push(format!("op {} {:?}: cursor has {} octets left, model {}", i, op, r.len(), data.len() - pos));
                break;
            }
        }
        (log, stats, ops.len())
    });
    match res {
        Ended::Returned((log, stats, nops)) => {
            ctx.rep.bucket_n("reader.ops", nops as u64);
            for s in stats {
                ctx.rep.bucket(s);
            }
            if let Some(first) = log.first() {
                let class: String = first.split(':').nth(1).unwrap_or("").chars().filter(|c| !c.is_ascii_digit()).take(40).collect();
                ctx.violate(format!("C18:reader:model-mismatch:{}", class.trim()), first.clone(), wit);
            }
        }
        Ended::Panicked(p) => {
            ctx.violate(format!("C18:reader:panic:{}", p.class()), format!("a reader operation whose precondition holds (or a checked bytes() request) panicked: {} at {}:{}", p.message, p.file, p.line), wit);
        }
        Ended::StepBudget => unreachable!(),
    }
    ctx.rep.sample(|| J::obj(vec![("data_hex", J::hex(&data[..data.len().min(24)])), ("ops", J::s(format!("{:?}", ops)))]));
}

#[derive(Clone, Debug)]
enum WOp {
    /// replace the writer by a clone of itself (the clone must be the same vector)
    CloneSelf,
    /// `clone_from` another writer holding the given octets (the standard "reuse my buffer" path)
    CloneFrom(Vec<u8>),
    /// compare with a freshly built equal / unequal writer through PartialEq
    Eq,
    Bytes(Vec<u8>),
    U8(u8),
    U16(u16),
    U32(u32),
    U64(u64),
    At(Vec<u8>, usize),
}

fn writer_case(ctx: &mut Ctx) {
    let miri = ctx.tier == Tier::Miri;
    let long = !miri && ctx.rng.chance(1, 16);
    let k = if long { ctx.rng.range(20, 150) } else { ctx.rng.range(1, 14) };
    let mut model: Vec<u8> = Vec::new();
    let mut w = VecWriter::new();
    if ctx.rng.chance(1, 6) {
        // start from a writer whose length sits just below a power of two (capacity boundaries:
        // the next few appends cross 2^k), or that already holds a lot (offsets beyond 2^16)
        let k = if miri { ctx.rng.range(3, 17) } else { ctx.rng.range(3, 18) } as u32;
        let n = if ctx.rng.chance(3, 4) { (1usize << k).saturating_sub(ctx.rng.range(0, 9) as usize) } else { *ctx.rng.pick(&[255usize, 256, 65_535, 65_536, 65_537, 100_000]) };
        let n = if miri { n.min(1 << 17) } else { n };
        let fill = ctx.rng.bytes(n);
        w.write_bytes(&fill);
        model.extend_from_slice(&fill);
        ctx.rep.bucket("writer.large_buffer");
    }
    let mut ops_desc = Vec::new();
    let mut nops = 0u64;
    for i in 0..k {
        let op = match ctx.rng.below(11) {
            9 => match ctx.rng.below(3) {
                0 => WOp::CloneSelf,
                1 => WOp::Eq,
                _ => {
                    // shorter, equal-length and longer sources
                    let len = model.len();
                    let n = match ctx.rng.below(4) {
                        0 => len / 2,
                        1 => len,
                        2 => len + ctx.rng.range(1, 20) as usize,
                        _ => ctx.rng.range(0, 40) as usize,
                    };
                    WOp::CloneFrom(ctx.rng.bytes(n.min(70_000)))
                }
            },
            10 => WOp::Bytes(ctx.rng.bytes_range(0, 24)),
            0 | 1 => WOp::Bytes(ctx.rng.bytes_range(0, 24)),
            2 => WOp::U8(ctx.rng.u8()),
            3 => WOp::U16(ctx.rng.u16b()),
            4 => WOp::U32(ctx.rng.u32b()),
            5 => WOp::U64(ctx.rng.u64b()),
            _ => {
                let len = model.len();
                let n = ctx.rng.range(0, 9) as usize;
                let off = match ctx.rng.below(10) {
                    8 | 9 => {
                        // in range only if the offset were truncated to 16/32/48 bits
                        let k = *ctx.rng.pick(&[16u32, 32, 32, 48, 63]);
                        (1usize.wrapping_shl(k)).wrapping_add(ctx.rng.below(len as u64 + 1) as usize)
                    }
                    0 => 0,
                    1 => len.saturating_sub(n),      // last octets, exact fit
                    2 => len.saturating_sub(n) + 1,  // one past
                    3 => len,                        // at the end
                    4 => len + ctx.rng.range(1, 100) as usize,
                    5 => usize::MAX - ctx.rng.below(n as u64 + 1) as usize, // offset + len overflows
                    _ => ctx.rng.below(len as u64 + 1) as usize,
                };
                WOp::At(ctx.rng.bytes(n), off)
            }
        };
        ops_desc.push(format!("{:?}", op));
        nops += 1;
        let wit = || J::obj(vec![("ops", J::A(ops_desc.iter().map(|o| J::s(o.clone())).collect())), ("failing_op", J::U(i))]);
        match &op {
            WOp::CloneSelf => {
                let c = w.clone();
                w = c;
                ctx.rep.bucket("writer.clone");
            }
            WOp::CloneFrom(src) => {
                let mut other = VecWriter::new();
                other.write_bytes(src);
                w.clone_from(&other);
                model = src.clone();
                ctx.rep.bucket("writer.clone_from");
            }
            WOp::Eq => {
                let mut same = VecWriter::new();
                same.write_bytes(&model);
                let mut diff = VecWriter::new();
                diff.write_bytes(&model);
                diff.write_u8(0);
                if w != same || w == diff {
                    ctx.violate("C18:writer:partial-eq", format!("a writer holding {} octets compares {} to an equal one and {} to a longer one", model.len(), if w == same { "equal" } else { "unequal" }, if w == diff { "equal" } else { "unequal" }), wit());
                    return;
                }
            }
            WOp::Bytes(b) => {
                w.write_bytes(b);
                model.extend_from_slice(b);
            }
            WOp::U8(x) => {
                w.write_u8(*x);
                model.push(*x);
            }
            WOp::U16(x) => {
                w.write_u16_be(*x);
                model.extend_from_slice(&x.to_be_bytes());
            }
            WOp::U32(x) => {
                w.write_u32_be(*x);
                model.extend_from_slice(&x.to_be_bytes());
            }
            WOp::U64(x) => {
                w.write_u64_be(*x);
                model.extend_from_slice(&x.to_be_bytes());
            }
            WOp::At(b, off) => {
                let inside = off.checked_add(b.len()).map(|e| e <= model.len()).unwrap_or(false);
                if off.checked_add(b.len()).is_none() {
                    ctx.rep.bucket("writer.at.overflowing_offset");
                }
                // give the vector spare capacity sometimes, so that an unchecked copy past len
                // would land in allocated-but-unwritten memory (only Miri / the model can tell)
                if ctx.rng.chance(1, 3) {
                    w.data.reserve(64);
                }
                let r = catch(|| w.write_bytes_at(b, *off));
                match r {
                    Ended::Returned(()) => {
                        if inside {
                            ctx.rep.bucket("writer.at.inrange");
                            if !b.is_empty() && off + b.len() == model.len() {
                                ctx.rep.bucket("writer.at.last_octet");
                            }
                            model[*off..off + b.len()].copy_from_slice(b);
                        } else {
                            ctx.violate("C18:writer:out-of-range-overwrite-accepted", format!("write_bytes_at({} octets, offset {}) on {} written octets returned normally", b.len(), off, model.len()), wit());
                            return;
                        }
                    }
                    Ended::Panicked(p) => {
                        if inside {
                            ctx.violate(format!("C18:writer:inrange-overwrite-refused:{}", p.class()), format!("write_bytes_at({} octets, offset {}) inside {} written octets panicked: {}", b.len(), off, model.len(), p.message), wit());
                            return;
                        }
                        ctx.rep.bucket("writer.at.refused");
                        // a refused overwrite must leave the buffer exactly as it was (checked by
                        // the comparison with the model right below)
                    }
                    Ended::StepBudget => unreachable!(),
                }
            }
        }
        if w.data != model || w.len() != model.len() || w.is_empty() != model.is_empty() {
            ctx.violate(
                format!("C18:writer:model-mismatch:{}", ops_desc.last().unwrap().chars().take_while(|c| c.is_ascii_alphanumeric()).collect::<String>()),
                format!("after {} the buffer is {} ({} octets, len() = {}), the model has {} ({} octets)", ops_desc.last().unwrap(), crate::report::hex(&w.data[..w.data.len().min(64)]), w.data.len(), w.len(), crate::report::hex(&model[..model.len().min(64)]), model.len()),
                wit(),
            );
            return;
        }
    }
    ctx.rep.bucket_n("writer.ops", nops);
    ctx.rep.case(ops_desc.join(";").as_bytes(), ops_desc.len() >= 3);
    ctx.rep.sample(|| J::obj(vec![("ops", J::A(ops_desc.iter().take(8).map(|o| J::s(o.clone())).collect()))]));
}

fn run(ctx: &mut Ctx) {
    match ctx.stream {
        "reader_ops" => reader_case(ctx),
        "writer_ops" => writer_case(ctx),
        "bytes_overrun" => {
            // every (data length 0..40, request = length + 1 .. length + 45): must be None, no panic, cursor unmoved
            let n = (ctx.idx % 41) as usize;
            let extra = (ctx.idx / 41) as usize + 1;
            let data: Box<[u8]> = ctx.rng.bytes(n).into();
            ctx.rep.case(&[n as u8, extra as u8], true);
            let wit = J::obj(vec![("data_hex", J::hex(&data)), ("request", J::U((n + extra) as u64))]);
            let res = catch(|| {
                let mut r = SliceReader::from(&data);
                let got = r.bytes(n + extra).map(|b| b.to_vec());
                (got, r.len())
            });
            match res {
                Ended::Returned((None, left)) if left == n => ctx.rep.bucket("reader.bytes.none"),
                Ended::Returned((got, left)) => ctx.violate("C18:reader:overrun-not-refused", format!("bytes({}) on {} octets returned {:?} and left {} octets", n + extra, n, got, left), wit),
                Ended::Panicked(p) => ctx.violate(format!("C18:reader:panic:{}", p.class()), format!("bytes({}) on {} octets panicked: {}", n + extra, n, p.message), wit),
                Ended::StepBudget => unreachable!(),
            }
        }
        _ => unreachable!(),
    }
}
