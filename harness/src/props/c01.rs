//! C01 Decoding is total: Ok or Err(non-empty), never a panic / overflow / runaway loop.

use super::common::*;
use super::*;
use crate::exec::{self, Out, Rk};
use crate::gen::wire;
use crate::report::J;
use crate::spec::model::*;

pub fn def() -> PropDef {
    PropDef {
        id: "C01",
        num: 1,
        streams,
        run,
        floors,
        rule: "inputs: every octet string of length <= 2; every flag word over a consistent body; every attribute 0..41,65535 x payload length 0..40 x H x vendor; every truncation point and single-bit flip of a corpus covering all AVP kinds and all 16 data-header shapes; boundary-mutated reference encodings, splices and random octets. Each input is decoded under all 8 option sets, try_read and try_read_greedy, through SliceReader and a step-budgeted contract reader. Distinct = distinct input octet strings; non-trivial = at least 6 octets (reaches past the flag word into a header). Also: inputs at the top of the 16-bit size fields with the announced octets present (offset sizes near 65535 with the pad, AVP lists beyond 64 KiB, ~10^4 minimal records), and a soak of 2^32 octets decoded on one thread. Before one case in sixteen a few calls that are expected to fail are executed and ignored (fault provocation).",
    }
}

fn streams(t: Tier) -> Vec<StreamDef> {
    vec![
        st("small_exhaustive", t.n(65793, 65793, 40, 65793), true),
        st("hostile", t.n(100_000, 4_000_000, 120, 20_000), false),
        st("avp_lengths", t.n(7052, 7052, 60, 7052), true),
        st("truncations", t.n(57 * 49, 57 * 49, 40, 57 * 49), true),
        st("bitflips", t.n(57 * 384, 57 * 384, 40, 57 * 384), true),
        st("flagwords", t.n(65536, 65536, 40, 65536), true),
        st("big", t.n(320, 8000, 0, 320), false),
        st("soak", t.n(16, 16, 0, 0), true),
    ]
}

fn floors(t: Tier) -> Vec<(String, u64)> {
    if t == Tier::Miri {
        return vec![("msg.ok".into(), 5), ("msg.err".into(), 5)];
    }
    vec![
        ("msg.ok".into(), 1000),
        ("msg.err".into(), 1000),
        ("avps.calls".into(), 1000),
        ("budget.checked".into(), 1000),
        ("kind.control.ok".into(), 100),
        ("kind.data.ok".into(), 100),
    ]
}

/// Judge one input under every entry point.
pub fn judge(ctx: &mut Ctx, b: &[u8], tag: &str) {
    let mut any_ok = false;
    for i in 0..9u8 {
        let o = if i < 8 { Some(SOpts::from_index(i)) } else { None };
        let run = exec::decode_msg(b, o, Rk::Slice);
        check_out(ctx, "decode", &run.out, b, o);
        match &run.out {
            Out::Ok(m) => {
                any_ok = true;
                ctx.rep.bucket("msg.ok");
                match m {
                    SMsg::Control(_) => ctx.rep.bucket("kind.control.ok"),
                    SMsg::Data(_) => ctx.rep.bucket("kind.data.ok"),
                }
            }
            Out::Err(e) => {
                ctx.rep.bucket("msg.err");
                if let Some(first) = e.first() {
                    let name: String = format!("{:?}", first).chars().take_while(|c| c.is_ascii_alphanumeric()).collect();
                    ctx.rep.bucket(&format!("err.{}", name));
                }
            }
            _ => {}
        }
    }
    // the same decode on a fresh thread with a modest stack, in its body and from thread-local
    // destructors while it is torn down
    if ctx.tier != Tier::Miri && b.len() <= 4096 && ctx.rng.chance(1, 64) {
        let o = Some(SOpts::from_index((ctx.rng.below(8)) as u8));
        let direct = exec::decode_msg(b, o, Rk::Slice).out;
        if !direct.abnormal() {
            let b2 = b.to_vec();
            thread_env_check(ctx, "C01", &direct, move || exec::decode_msg(&b2, o, Rk::Slice).out, w_input(b, o));
        }
    }
    // step budget (termination witness) through the contract reader, one option set per input
    let o = Some(SOpts::from_index((ctx.rng.below(8)) as u8));
    let run = exec::decode_msg(b, o, Rk::ContractSlice);
    ctx.rep.bucket("budget.checked");
    if let Some(l) = &run.log {
        let calls = l.borrow().calls;
        ctx.rep.bucket_n("reader.calls", calls);
    }
    check_out(ctx, "decode(contract)", &run.out, b, o);

    // bare AVP list: the whole input and, when it looks like a control message, its body
    let mut regions: Vec<&[u8]> = vec![b];
    if b.len() > 12 {
        regions.push(&b[12..]);
    }
    for reg in regions {
        for rk in [Rk::Slice, Rk::ContractSlice] {
            let run = exec::decode_avps(reg, rk);
            ctx.rep.bucket("avps.calls");
            match &run.out {
                Out::Ok(list) => {
                    ctx.rep.bucket_n("avps.records", list.len() as u64);
                }
                Out::Err(_) => unreachable!(),
                Out::Panic(p) => {
                    let sig = format!("C01:decode_avps:panic:{}", p.class());
                    ctx.violate(sig, format!("try_read_greedy panicked: {} at {}:{}", p.message, p.file, p.line), w_input(reg, None));
                }
                Out::Budget => {
                    ctx.violate("C01:decode_avps:step-budget", "try_read_greedy exceeded 8n+64 reader calls (non-termination witness)", w_input(reg, None));
                }
            }
        }
    }
    ctx.rep.case(b, is_nontrivial_input(b));
    ctx.rep.bucket(&format!("size.{}", size_bucket(b.len())));
    ctx.rep.bucket(&format!("gen.{}", tag));
    if any_ok {
        ctx.rep.bucket("input.accepted_somewhere");
    }
    let blen = b.len();
    ctx.rep.sample(|| J::obj(vec![("stream", J::s(tag)), ("input_hex", J::hex(&b[..blen.min(96)])), ("len", J::U(blen as u64))]));
}

fn check_out(ctx: &mut Ctx, what: &str, out: &Out<SMsg>, b: &[u8], o: Option<SOpts>) {
    match out {
        Out::Ok(_) => {}
        Out::Err(e) => {
            if e.is_empty() {
                ctx.violate("C01:empty-error-list", format!("{} returned Err(vec![])", what), w_input(b, o));
            }
        }
        Out::Panic(p) => {
            let sig = format!("C01:decode:panic:{}", p.class());
            ctx.violate(sig, format!("{} panicked: {} at {}:{}", what, p.message, p.file, p.line), w_input(b, o));
        }
        Out::Budget => {
            ctx.violate("C01:decode:step-budget", format!("{} exceeded 8n+64 reader calls (non-termination witness)", what), w_input(b, o));
        }
    }
}

pub fn small_input(idx: u64) -> Vec<u8> {
    match idx {
        0 => vec![],
        1..=256 => vec![(idx - 1) as u8],
        _ => {
            let w = (idx - 257) as u16;
            vec![(w >> 8) as u8, w as u8]
        }
    }
}

/// attr index 0..42 -> attribute numbers 0..41 and 65535
pub fn avp_length_case(r: &mut crate::gen::Rng, idx: u64) -> Vec<u8> {
    let attr_i = idx % 43;
    let len = (idx / 43) % 41;
    let variant = idx / (43 * 41); // 0..3 : H x vendor
    let attr = if attr_i == 42 { 65535 } else { attr_i as u16 };
    let hidden = variant & 1 != 0;
    let vendor = if variant & 2 != 0 { 7 } else { 0 };
    let payload = if r.bool() { wire::valid_payload(r, attr, len as usize) } else { r.bytes(len as usize) };
    let mut body = wire::message_type_record(1);
    body.extend_from_slice(&wire::raw_record(attr, hidden, vendor, &payload, r.bool()));
    wire::control_around(&body, 1, 2, 3, 4)
}

fn run(ctx: &mut Ctx) {
    match ctx.stream {
        "small_exhaustive" => {
            let b = small_input(ctx.idx);
            judge(ctx, &b, "small");
        }
        "hostile" => {
            let (b, names) = wire::hostile(&mut ctx.rng);
            for n in names.iter() {
                ctx.rep.bucket(&format!("mut.{}", n));
            }
            judge(ctx, &b, "hostile");
        }
        "avp_lengths" => {
            let idx = ctx.idx;
            let b = avp_length_case(&mut ctx.rng, idx);
            judge(ctx, &b, "avp_lengths");
        }
        "truncations" => {
            let i = (ctx.idx % 57) as usize;
            let cut = (ctx.idx / 57) as usize;
            let w = ctx.corpus()[i].bytes.clone();
            if cut <= w.len() {
                judge(ctx, &w[..cut], "truncation");
            }
        }
        "bitflips" => {
            let i = (ctx.idx % 57) as usize;
            let bit = (ctx.idx / 57) as usize;
            let mut w = ctx.corpus()[i].bytes.clone();
            if bit / 8 < w.len() {
                w[bit / 8] ^= 1 << (bit % 8);
                judge(ctx, &w, "bitflip");
            }
        }
        "flagwords" => {
            let w = ctx.idx as u16;
            let n = (ctx.rng.below(3)) as usize;
            let b = body_for_word(&mut ctx.rng, w, n);
            judge(ctx, &b, "flagword");
        }
        "big" => match wire::big_input(&mut ctx.rng) {
            (wire::Big::Msg(b), tag) => judge(ctx, &b, tag),
            (wire::Big::Avps(b), tag) => {
                ctx.rep.case(&b[b.len().saturating_sub(64)..], true);
                ctx.rep.bucket(&format!("gen.{}", tag));
                for rk in [Rk::Slice, Rk::ContractSlice] {
                    let run = exec::decode_avps(&b, rk);
                    ctx.rep.bucket("avps.calls");
                    match &run.out {
                        Out::Panic(p) => ctx.violate(format!("C01:decode_avps:panic:{}", p.class()), format!("try_read_greedy panicked on a {}-octet list: {}", b.len(), p.message), J::obj(vec![("len", J::U(b.len() as u64)), ("tail_hex", J::hex(&b[b.len().saturating_sub(48)..])), ("generator", J::s(tag))])),
                        Out::Budget => ctx.violate("C01:decode_avps:step-budget", "try_read_greedy exceeded 8n+64 reader calls", J::obj(vec![("len", J::U(b.len() as u64)), ("generator", J::s(tag))])),
                        _ => {}
                    }
                }
            }
        },
        "soak" => {
            // cumulative volume: one thread decodes more than 2^32 octets (borrowed payloads make
            // this cheap); nothing may depend on how much has been decoded before
            let n = 32usize << 20;
            let mut big = vec![0xa5u8; n];
            big[0] = 0x00;
            big[1] = 0x20;
            let boxed: Box<[u8]> = big.into();
            ctx.rep.case(b"soak", true);
            let res = crate::monitor::panic::catch(|| {
                let mut ok = 0u32;
                for _ in 0..136 {
                    let mut r = rl2tp::common::SliceReader::from(&boxed);
                    if rl2tp::Message::<&[u8]>::try_read(&mut r).is_ok() {
                        ok += 1;
                    }
                }
                ok
            });
            match res {
                crate::monitor::panic::Ended::Returned(136) => ctx.rep.bucket_n("soak.octets_decoded_on_one_thread", 136 * n as u64),
                crate::monitor::panic::Ended::Returned(k) => ctx.violate("C01:soak:result-changes-with-volume", format!("only {} of 136 identical decodes of a 32 MiB data message succeeded", k), J::Null),
                crate::monitor::panic::Ended::Panicked(p) => ctx.violate(format!("C01:soak:panic:{}", p.class()), format!("decoding the same 32 MiB data message repeatedly on one thread (4.25 GiB in total) panicked: {} at {}:{}", p.message, p.file, p.line), J::obj(vec![("message", J::s("00 20 a5 a5 a5 a5 followed by 32 MiB of a5")), ("repetitions", J::U(136))])),
                _ => unreachable!(),
            }
        }
        _ => unreachable!(),
    }
}
