//! C14 Validation options only restrict; each checks exactly its bits; default = version only.

use super::common::*;
use super::*;
use crate::exec::{self, Out, Rk};
use crate::gen::wire;
use crate::report::J;
use crate::spec::model::*;
use crate::spec::tables::*;

pub fn def() -> PropDef {
    PropDef {
        id: "C14",
        num: 14,
        streams,
        run,
        floors,
        rule: "exhaustive: every one of the 65536 flag words over a body consistent with its T/L/S/O bits, decoded under all 8 option sets and try_read. With R[o] the result under option set o: R[o] must be Err if o trips (version check and nibble != 2; reserved check and a reserved bit; unused check and control with P or O), otherwise R[o] must equal R[no checks] (same Ok value, or both Err). try_read must equal try_read_validate({version}) exactly, errors included. Bit-independence: with a check off, flipping the bits it guards must not change the result. Plus hostile inputs. Distinct = distinct inputs; non-trivial = R[no checks] is Ok (so every option set has something to restrict). Also: the same (input, options) pairs decoded concurrently from 8 threads with differing options must give the single-thread results.",
    }
}

fn streams(t: Tier) -> Vec<StreamDef> {
    vec![st("flagwords", t.n(65536, 65536 * 4, 60, 65536), true), st("hostile", t.n(40_000, 2_000_000, 40, 10_000), false), st("threads", t.n(64, 1600, 1, 64), false), st("big", t.n(200, 4000, 0, 200), false), st("vendor_grid", t.n(wire::VENDOR_GRID, wire::VENDOR_GRID, 0, wire::VENDOR_GRID), true), st("dict_grid", t.n(wire::dict_grid_count(), wire::dict_grid_count(), 40, wire::dict_grid_count().min(200_000)).min(wire::dict_grid_count()), wire::dict_grid_exhaustive(t == Tier::Quick || t == Tier::Thorough))]
}

fn floors(t: Tier) -> Vec<(String, u64)> {
    if t == Tier::Miri {
        return vec![("compared".into(), 100)];
    }
    vec![
        ("compared".into(), 500_000),
        ("base.ok".into(), 10_000),
        ("tripped.version".into(), 10_000),
        ("tripped.reserved".into(), 10_000),
        ("tripped.unused".into(), 1_000),
        ("untripped.ok".into(), 5_000),
        ("default.compared".into(), 60_000),
        ("bit_independence.flips".into(), 20_000),
        ("threads.decodes".into(), 10_000),
    ]
}

fn trips(o: SOpts, w: u16) -> Option<&'static str> {
    if o.version && (w & VERSION_MASK) >> 4 != 2 {
        return Some("version");
    }
    if o.reserved && w & RESERVED_MASK != 0 {
        return Some("reserved");
    }
    if o.unused && w & BIT_T != 0 && w & (BIT_P | BIT_O) != 0 {
        return Some("unused");
    }
    None
}

fn equiv(a: &Out<SMsg>, b: &Out<SMsg>) -> bool {
    match (a, b) {
        (Out::Ok(x), Out::Ok(y)) => x == y,
        (Out::Err(_), Out::Err(_)) => true,
        _ => false,
    }
}

pub fn judge(ctx: &mut Ctx, b: &[u8]) {
    if b.len() < 2 {
        return;
    }
    let w = ((b[0] as u16) << 8) | b[1] as u16;
    let base = exec::decode_msg(b, Some(SOpts::NONE), Rk::Slice);
    ctx.rep.case(b, base.out.is_ok());
    if base.out.abnormal() {
        // totality is C01's business; nothing to compare against
        ctx.rep.bucket("base.abnormal");
        return;
    }
    if base.out.is_ok() {
        ctx.rep.bucket("base.ok");
    }
    let mut results: Vec<Out<SMsg>> = Vec::new();
    for i in 0..8u8 {
        let o = SOpts::from_index(i);
        let run = if i == 0 { exec::decode_msg(b, Some(o), Rk::Slice) } else { exec::decode_msg(b, Some(o), Rk::Slice) };
        ctx.rep.bucket("compared");
        if run.out.abnormal() {
            ctx.rep.bucket("opt.abnormal");
            results.push(run.out);
            continue;
        }
        match trips(o, w) {
            Some(which) => {
                ctx.rep.bucket(&format!("tripped.{}", which));
                if !run.out.is_err() {
                    ctx.violate(
                        format!("C14:check-not-applied:{}", which),
                        format!("{} checking is on and the header trips it (flag word {:#06x}), but the result is {}", which, w, out_str(&run.out)),
                        w_input(b, Some(o)),
                    );
                }
            }
            None => {
                if run.out.is_ok() {
                    ctx.rep.bucket("untripped.ok");
                }
                if !equiv(&run.out, &base.out) {
                    ctx.violate(
                        format!("C14:option-changes-result:{}:{}-vs-{}", opts_str(Some(o)), base.out.class(), run.out.class()),
                        format!("no enabled check is tripped by flag word {:#06x}, yet the result differs from the unchecked one: {} vs {}", w, out_str(&run.out), out_str(&base.out)),
                        w_input(b, Some(o)),
                    );
                }
            }
        }
        results.push(run.out);
    }
    // monotonicity (implied by the above, checked directly as well): Ok under stronger => same Ok under weaker
    for i in 0..8usize {
        for j in 0..8usize {
            if i & j == j && i != j {
                if let (Out::Ok(strong), weak) = (&results[i], &results[j]) {
                    match weak {
                        Out::Ok(wv) if wv == strong => {}
                        other => ctx.violate(
                            "C14:not-monotone",
                            format!("accepted under option set {} as {:?} but under the weaker set {} the result is {}", i, strong, j, out_str(other)),
                            w_input(b, Some(SOpts::from_index(i as u8))),
                        ),
                    }
                }
            }
        }
    }
    // default entry point = version checking alone, exactly (errors included)
    let d = exec::decode_msg(b, None, Rk::Slice);
    ctx.rep.bucket("default.compared");
    if !same_out(&d.out, &results[SOpts::DEFAULT.index() as usize]) {
        ctx.violate(
            "C14:default-differs-from-version-only",
            format!("try_read gives {} but try_read_validate with only version checking gives {}", out_str(&d.out), out_str(&results[SOpts::DEFAULT.index() as usize])),
            w_input(b, None),
        );
    }
    // bit independence: with a check off, flipping its bits changes nothing
    let mut flips: Vec<(SOpts, u16)> = Vec::new();
    let ver_flip = (1 + ctx.rng.below(15) as u16) << 4;
    flips.push((SOpts { version: false, reserved: true, unused: true }, ver_flip));
    let res_bits = [0u16, 1, 2, 3, 10, 11, 13];
    flips.push((SOpts { version: true, reserved: false, unused: true }, 1 << *ctx.rng.pick(&res_bits)));
    if w & BIT_T != 0 {
        flips.push((SOpts { version: true, reserved: true, unused: false }, if ctx.rng.bool() { BIT_P } else { BIT_O }));
    }
    for (o, mask) in flips {
        let mut b2 = b.to_vec();
        let w2 = w ^ mask;
        b2[0] = (w2 >> 8) as u8;
        b2[1] = w2 as u8;
        let r1 = exec::decode_msg(b, Some(o), Rk::Slice);
        let r2 = exec::decode_msg(&b2, Some(o), Rk::Slice);
        ctx.rep.bucket("bit_independence.flips");
        if r1.out.abnormal() || r2.out.abnormal() {
            continue;
        }
        if !equiv(&r1.out, &r2.out) {
            ctx.violate(
                format!("C14:unchecked-bits-matter:{:#06x}", mask),
                format!("with options {} the header bits {:#06x} are not checked, yet flipping them changes the result: {} vs {}", opts_str(Some(o)), mask, out_str(&r1.out), out_str(&r2.out)),
                J::obj(vec![("input_hex", J::hex(b)), ("flipped_hex", J::hex(&b2)), ("options", J::s(opts_str(Some(o))))]),
            );
        }
    }
    ctx.rep.sample(|| J::obj(vec![("flag_word", J::s(format!("{:#06x}", w))), ("input_hex", J::hex(&b[..b.len().min(48)])), ("results", J::A(results.iter().map(|r| J::s(r.class())).collect()))]));
}

/// The same (input, option set) pairs decoded concurrently from several threads, each thread
/// using its own option sets: an option must act only on the call it was passed to.
fn thread_case(ctx: &mut Ctx) {
    use std::sync::{Arc, Barrier};
    let n_threads = if ctx.tier == Tier::Miri { 3 } else { 8 };
    let n_msgs = if ctx.tier == Tier::Miri { 6 } else { 48 };
    let mut work: Vec<(Vec<u8>, SOpts, &'static str)> = Vec::new();
    for _ in 0..n_msgs {
        // control and data messages whose header trips one of the checks or none
        let mut w: u16 = (2 << 4) | if ctx.rng.bool() { BIT_T | BIT_L | BIT_S } else { 0 };
        match ctx.rng.below(5) {
            0 => w |= if ctx.rng.bool() { BIT_P } else { BIT_O },
            1 => w = (w & !VERSION_MASK) | ((*ctx.rng.pick(&[0u16, 1, 3, 15])) << 4),
            2 => w |= 1 << *ctx.rng.pick(&[0u16, 1, 2, 3, 10, 11, 13]),
            _ => {}
        }
        let b = body_for_word(&mut ctx.rng, w, 2);
        let o = SOpts::from_index(ctx.rng.below(8) as u8);
        let want = match exec::decode_msg(&b, Some(o), Rk::Slice).out {
            Out::Ok(_) => "ok",
            Out::Err(_) => "err",
            _ => "abnormal",
        };
        work.push((b, o, want));
    }
    ctx.rep.case(format!("thr{:?}", work.iter().map(|w| (w.1.index(), w.0.len())).collect::<Vec<_>>()).as_bytes(), true);
    let work = Arc::new(work);
    let barrier = Arc::new(Barrier::new(n_threads));
    let seed = ctx.rng.next();
    let mut hs = Vec::new();
    for t in 0..n_threads {
        let (work, barrier) = (work.clone(), barrier.clone());
        hs.push(std::thread::spawn(move || {
            let mut r = crate::gen::Rng::new(seed ^ (t as u64) << 32);
            let mut bad = Vec::new();
            barrier.wait();
            for _round in 0..(if work.len() > 10 { 200 } else { 2 }) {
                let i = r.below(work.len() as u64) as usize;
                let (b, o, want) = &work[i];
                let got = match exec::decode_msg(b, Some(*o), Rk::Slice).out {
                    Out::Ok(_) => "ok",
                    Out::Err(_) => "err",
                    _ => "abnormal",
                };
                if got != *want {
                    bad.push((i, got));
                }
                if r.chance(1, 4) {
                    std::thread::yield_now();
                }
            }
            bad
        }));
    }
    for h in hs {
        if let Ok(bad) = h.join() {
            ctx.rep.bucket_n("threads.decodes", if work.len() > 10 { 200 } else { 2 });
            for (i, got) in bad {
                let (b, o, want) = &work[i];
                ctx.violate(
                    "C14:options-leak-between-threads",
                    format!("decoding with options {} gives {} on one thread alone but {} while other threads decode with other options", opts_str(Some(*o)), want, got),
                    w_input(b, Some(*o)),
                );
            }
        }
    }
}

fn run(ctx: &mut Ctx) {
    match ctx.stream {
        "vendor_grid" => {
            let idx = ctx.idx;
            let b = wire::vendor_grid_case(&mut ctx.rng, idx);
            judge(ctx, &b);
        }
        "dict_grid" => {
            let idx = ctx.idx;
            let b = wire::dict_grid_case(&mut ctx.rng, idx);
            judge(ctx, &b);
        }
        "threads" => thread_case(ctx),
        "big" => {
            // inputs of more than 64 KiB: an option may not make the size of the buffer matter
            let b = match wire::big_input(&mut ctx.rng) {
                (wire::Big::Msg(b), _) => b,
                (wire::Big::Avps(list), _) => {
                    // a short control message followed by a lot more in the caller's buffer
                    let mut b = body_for_word(&mut ctx.rng, 0xc802 | BIT_T | BIT_L | BIT_S, 2);
                    b[0] = 0x13;
                    b[1] = 0x20;
                    b.extend_from_slice(&list);
                    b
                }
            };
            ctx.rep.bucket("big_inputs");
            judge(ctx, &b);
        }
        "flagwords" => {
            let w = (ctx.idx % 65536) as u16;
            let pass = ctx.idx / 65536;
            let n = if pass == 0 { (ctx.idx % 3) as usize } else { ctx.rng.below(4) as usize };
            let b = body_for_word(&mut ctx.rng, w, n);
            judge(ctx, &b);
        }
        "hostile" => {
            let (b, _) = wire::hostile(&mut ctx.rng);
            judge(ctx, &b);
        }
        _ => unreachable!(),
    }
}
