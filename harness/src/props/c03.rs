//! C03 Control messages and all AVP kinds survive encode then decode unchanged.

use super::common::*;
use super::*;
use crate::exec::{self, Out, Rk, Wk};
use crate::gen::val;
use crate::glue;
use crate::report::J;
use crate::spec::encode as senc;
use crate::spec::model::*;

pub fn def() -> PropDef {
    PropDef {
        id: "C03",
        num: 3,
        streams,
        run,
        floors,
        rule: "values generated in the encodable domain (all 39 kinds + opaque hidden, boundary-biased scalars, variable parts of 1..1017 octets incl. 249/250/1017, 1-4 octet UTF-8 scalars; control messages of 0..70 AVPs up to exactly 65535 octets) are encoded by the crate and decoded by the crate under the strictest options; the decoded value must equal the original with length := octets emitted. Distinct = distinct values; non-trivial = AVP with a non-empty payload or message with at least one AVP.",
    }
}

fn streams(t: Tier) -> Vec<StreamDef> {
    vec![
        st("avp", t.n(80_000, 4_000_000, 200, 20_000), false),
        st("msg", t.n(20_000, 600_000, 40, 5_000), false),
        st("big", t.n(72, 900, 1, 24), false),
    ]
}

fn floors(t: Tier) -> Vec<(String, u64)> {
    if t == Tier::Miri {
        return vec![("avp.roundtrip".into(), 50)];
    }
    let mut f: Vec<(String, u64)> = vec![("avp.roundtrip".into(), 10_000), ("msg.roundtrip".into(), 1000), ("len.256-1022".into(), 100), ("len.1023".into(), 20), ("msg.size.65535".into(), 1), ("msg.zlb".into(), 10), ("msg.many_minimal_avps".into(), 10)];
    for k in 0..val::KINDS {
        f.push((format!("kind.{}", k), 20));
    }
    f
}

pub fn avp_roundtrip(ctx: &mut Ctx, a: &SAvp) {
    let ca = match glue::avp_to_crate(a) {
        Some(x) => x,
        None => {
            ctx.rep.bucket("glue.unrepresentable");
            return;
        }
    };
    let key = format!("{:?}", a);
    ctx.rep.case(key.as_bytes(), !matches!(a.body, SBody::Empty));
    let enc = match exec::encode_avp(&ca, Wk::Vec) {
        exec::EncOut::Ok(e) => e.bytes,
        exec::EncOut::Panic(p) => {
            ctx.violate(format!("C03:encode-panic:{}", p.class()), format!("encoding an in-domain AVP panicked: {} ({:?})", p.message, a), J::obj(vec![("avp", J::s(key.clone()))]));
            return;
        }
    };
    ctx.rep.bucket(&format!("len.{}", len_bucket(enc.len())));
    let run = exec::decode_avps(&enc, Rk::Slice);
    match &run.out {
        Out::Ok(list) => {
            let ok = list.len() == 1 && matches!(&list[0], Ok(b) if b == a);
            if !ok {
                ctx.violate(
                    format!("C03:avp-roundtrip:attr{}{}", a.attr, if a.hidden { ":hidden" } else { "" }),
                    format!("decode_avps(encode(a)) = {:?}, expected [Ok({:?})]", list, a),
                    J::obj(vec![("avp", J::s(key.clone())), ("encoded_hex", J::hex(&enc))]),
                );
            } else {
                ctx.rep.bucket("avp.roundtrip");
            }
            if run.remaining != 0 {
                ctx.violate("C03:avp-roundtrip:leftover", format!("{} octets left after decoding one encoded AVP", run.remaining), J::obj(vec![("avp", J::s(key.clone())), ("encoded_hex", J::hex(&enc))]));
            }
        }
        other => {
            ctx.violate(
                format!("C03:avp-roundtrip:{}", other.class()),
                format!("decoding an encoded AVP ended with {}", out_str(other)),
                J::obj(vec![("avp", J::s(key.clone())), ("encoded_hex", J::hex(&enc))]),
            );
        }
    }
    ctx.rep.sample(|| J::obj(vec![("avp", J::s(key.clone())), ("encoded_hex", J::hex(&enc[..enc.len().min(64)]))]));
}

pub fn msg_roundtrip(ctx: &mut Ctx, c: &SControl) {
    let m = SMsg::Control(c.clone());
    let cm = match glue::msg_to_crate(&m) {
        Some(x) => x,
        None => return,
    };
    let enc = match exec::encode_msg(&cm, Wk::Vec) {
        exec::EncOut::Ok(e) => e.bytes,
        exec::EncOut::Panic(p) => {
            ctx.violate(format!("C03:encode-panic:{}", p.class()), format!("encoding an in-domain control message panicked: {}", p.message), J::obj(vec![("message", J::s(format!("{:?}", c)))]));
            return;
        }
    };
    // the same message written behind 64 KiB+ of earlier output (a batch in one writer) must be
    // the same octets and decode the same
    if ctx.rng.chance(1, 24) && ctx.tier != Tier::Miri {
        let plen = *ctx.rng.pick(&[65_530usize, 65_536, 70_000, 131_072]);
        let prefix = vec![0xeeu8; plen];
        ctx.rep.bucket("msg.behind_64k_prefix");
        match exec::encode_items(&prefix, &[exec::Item::Msg(&cm)], Wk::Vec) {
            exec::EncOut::Ok(e) if e.bytes.len() == plen + enc.len() && e.bytes[plen..] == enc[..] && e.bytes[..plen] == prefix[..] => {}
            exec::EncOut::Ok(e) => {
                ctx.violate("C03:msg-roundtrip:behind-prefix:octets-differ", format!("the message written behind {} earlier octets is not the same octets ({} vs {} emitted)", plen, e.bytes.len().saturating_sub(plen), enc.len()), J::obj(vec![("message", J::s(format!("{:?}", c))), ("prefix_octets", J::U(plen as u64))]));
                return;
            }
            exec::EncOut::Panic(p) => {
                ctx.violate(format!("C03:encode-panic:behind-prefix:{}", p.class()), format!("encoding an in-domain control message behind {} earlier octets panicked: {}", plen, p.message), J::obj(vec![("message", J::s(format!("{:?}", c))), ("prefix_octets", J::U(plen as u64))]));
                return;
            }
        }
    }
    let hkey = crate::monitor::hll::hash_bytes(3, &enc).to_le_bytes();
    ctx.rep.case(&hkey, !c.avps.is_empty());
    ctx.rep.bucket(&format!("msg.size.{}", size_bucket(enc.len())));
    if c.avps.is_empty() {
        ctx.rep.bucket("msg.zlb");
    }
    ctx.rep.bucket_n("msg.avps", c.avps.len() as u64);
    let mut want = c.clone();
    want.length = enc.len() as u16;
    for rk in [Rk::Slice, Rk::ContractVec] {
        let run = exec::decode_msg(&enc, Some(SOpts::STRICT), rk);
        match &run.out {
            Out::Ok(SMsg::Control(got)) if *got == want && run.remaining == 0 => {
                ctx.rep.bucket("msg.roundtrip");
            }
            other => {
                let class = match other {
                    Out::Ok(g) => format!("value:{}", super::c05::msg_diff_class(&SMsg::Control(want.clone()), g)),
                    o => o.class().to_string(),
                };
                ctx.violate(
                    format!("C03:msg-roundtrip:{}", class),
                    format!("decode_strict(encode(m)) = {} (remaining {}), expected Ok(m with length {})", out_str(other), run.remaining, enc.len()),
                    J::obj(vec![("message", J::s(format!("{:?}", c))), ("encoded_hex", J::hex(&enc[..enc.len().min(4096)])), ("encoded_len", J::U(enc.len() as u64))]),
                );
            }
        }
    }
    // through a reader whose T is a lease on shared storage: a decoder that keeps one T alive
    // while it asks the reader for more would fail the round trip there (RefCell-backed readers)
    if enc.len() <= 8192 {
        let run = exec::decode_msg(&enc, Some(SOpts::STRICT), Rk::Wiping);
        ctx.rep.bucket("msg.roundtrip.lease_reader");
        let overlapping = run.log.as_ref().map(|l| l.borrow().calls_with_live_lease).unwrap_or(0);
        if overlapping > 0 {
            ctx.violate(
                "C03:msg-roundtrip:reader-called-while-lease-alive",
                format!("decoding the encoded message made {} reader calls while a T from an earlier bytes() call was still alive: with a reader whose T is a guard on shared storage the round trip panics", overlapping),
                J::obj(vec![("message", J::s(format!("{:?}", c))), ("encoded_hex", J::hex(&enc[..enc.len().min(4096)]))]),
            );
        }
    }
    // the reference must agree that this is what the octets mean (guards against a symmetric bug)
    if let Some(ref_enc) = senc::message(&m) {
        if ref_enc.len() != enc.len() {
            ctx.rep.observe("size differs from reference encoder (C06 judges octets)");
        }
    }
}

fn run(ctx: &mut Ctx) {
    match ctx.stream {
        "avp" => {
            let k = (ctx.idx % val::KINDS as u64) as usize;
            let a = val::avp_kind(&mut ctx.rng, k, 1017);
            ctx.rep.bucket(&format!("kind.{}", k));
            avp_roundtrip(ctx, &a);
        }
        "msg" => {
            let (max_avps, maxp) = if ctx.rng.chance(1, 20) { (70, 1017) } else { (10, 80) };
            let c = val::control(&mut ctx.rng, max_avps, maxp);
            msg_roundtrip(ctx, &c);
        }
        "big" => {
            // exact sizes around the 16-bit limit
            let targets = [65535usize, 65534, 65535 - 7, 65000, 40000, 32768 + 7, 32767 + 8, 16384 + 7];
            let t = targets[(ctx.idx % targets.len() as u64) as usize];
            if ctx.idx % 3 == 2 {
                // the fullest possible message: Message Type + thousands of minimal AVPs
                let n = *ctx.rng.pick(&[8_191usize, 8_192, 10_000, 10_240, 10_241, 10_900, 10_919]);
                let mut avps = vec![val::avp_of(&mut ctx.rng, 0, 8)];
                for _ in 0..n {
                    avps.push(SAvp { attr: 39, hidden: false, body: SBody::Empty });
                }
                let c = SControl { length: 0, tunnel: 1, session: 2, ns: 3, nr: 4, avps };
                ctx.rep.bucket("msg.many_minimal_avps");
                msg_roundtrip(ctx, &c);
                return;
            }
            let c = val::control_exact(&mut ctx.rng, t);
            msg_roundtrip(ctx, &c);
        }
        _ => unreachable!(),
    }
}
