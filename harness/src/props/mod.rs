//! One driver + oracle per property. A property is a list of *streams* (named, counted case
//! generators); case `idx` of a stream is a pure function of (seed, property, stream, idx).

use crate::gen::wire::Wire;
use crate::gen::Rng;
use crate::report::{Report, J};

pub mod common;

pub mod c01;
pub mod c02;
pub mod c03;
pub mod c04;
pub mod c05;
pub mod c06;
pub mod c07;
pub mod c08;
pub mod c09;
pub mod c10;
pub mod c11;
pub mod c12;
pub mod c13;
pub mod c14;
pub mod c15;
pub mod c16;
pub mod c17;
pub mod c18;
pub mod c19;
pub mod c20;

#[derive(Clone, Copy, Debug, PartialEq, Eq)]
pub enum Tier {
    Quick,
    Thorough,
    /// reduced budgets for the interpreter / sanitizer builds
    Miri,
    San,
}

impl Tier {
    pub fn parse(s: &str) -> Option<Tier> {
        Some(match s {
            "quick" => Tier::Quick,
            "thorough" => Tier::Thorough,
            "miri" => Tier::Miri,
            "san" => Tier::San,
            _ => return None,
        })
    }
    /// pick a count per tier
    pub fn n(&self, quick: u64, thorough: u64, miri: u64, san: u64) -> u64 {
        match self {
            Tier::Quick => quick,
            Tier::Thorough => thorough,
            Tier::Miri => miri,
            Tier::San => san,
        }
    }
}

#[derive(Clone, Debug)]
pub struct StreamDef {
    pub name: &'static str,
    pub count: u64,
    /// true when the stream enumerates a finite space completely (never cut by the time cap)
    pub exhaustive: bool,
}

pub fn st(name: &'static str, count: u64, exhaustive: bool) -> StreamDef {
    StreamDef { name, count, exhaustive }
}

pub struct Ctx<'a> {
    pub seed: u64,
    pub tier: Tier,
    pub build: String,
    pub rep: &'a mut Report,
    pub stream: &'static str,
    pub stream_no: usize,
    pub idx: u64,
    pub rng: Rng,
    pub prop_num: u32,
    /// cached per-stream corpus (a pure function of the seed)
    pub corpus: Option<Vec<Wire>>,
    /// when replaying: print the case instead of (or as well as) judging it
    pub describe: bool,
}

impl<'a> Ctx<'a> {
    pub fn violate(&mut self, signature: impl Into<String>, detail: impl Into<String>, witness: J) {
        let stream = self.stream;
        let idx = self.idx;
        self.rep.violate(signature.into(), stream, idx, detail.into(), witness);
    }
    /// A fixed corpus for sweep streams; built from the run seed only.
    pub fn corpus(&mut self) -> &Vec<Wire> {
        if self.corpus.is_none() {
            let mut r = Rng::for_case(self.seed, self.prop_num, 0xc0de, 0);
            self.corpus = Some(crate::gen::wire::corpus(&mut r));
        }
        self.corpus.as_ref().unwrap()
    }
}

pub struct PropDef {
    pub id: &'static str,
    pub num: u32,
    pub streams: fn(Tier) -> Vec<StreamDef>,
    pub run: fn(&mut Ctx),
    /// (bucket name, minimum count) that a complete run must reach, else the run is inconclusive
    pub floors: fn(Tier) -> Vec<(String, u64)>,
    /// how cases are generated and what makes one non-trivial / distinct
    pub rule: &'static str,
}

pub fn all() -> Vec<PropDef> {
    vec![
        c01::def(),
        c02::def(),
        c03::def(),
        c04::def(),
        c05::def(),
        c06::def(),
        c07::def(),
        c08::def(),
        c09::def(),
        c10::def(),
        c11::def(),
        c12::def(),
        c13::def(),
        c14::def(),
        c15::def(),
        c16::def(),
        c17::def(),
        c18::def(),
        c19::def(),
        c20::def(),
    ]
}

pub fn find(id: &str) -> Option<PropDef> {
    all().into_iter().find(|p| p.id == id)
}
