//! C13 Revealing is total: any hidden octets, secret and random vector give Ok or Err.

use super::common::*;
use super::*;
use crate::exec::{self, Out};
use crate::gen::val;
use crate::glue;
use crate::report::J;
use crate::spec::hide as shide;
use crate::spec::tables::*;

pub fn def() -> PropDef {
    PropDef {
        id: "C13",
        num: 13,
        streams,
        run,
        floors,
        rule: "reveal on hostile hidden AVPs: random (type, value, secret, rv) with |value| in {0..80, 16k, 1008, 1024, 4096}; and crafted ciphertexts built with the reference cipher so that the *decrypted* length field takes every value in {0..7, fit-1, fit, fit+1, 1023, 1024, 0xffff} for every attribute 0..41 - both sides of every guard inside reveal. The hidden value sits in an exact-capacity heap block (sanitizer builds watch the private reader). Outcome must be Ok(AVP of the announced type) or Err; Err is required for empty, misaligned, and non-fitting lengths. Distinct = distinct (type, value, secret, rv); non-trivial = value is a positive multiple of 16 (gets past the first two guards). Also: hidden values of 2^12..2^17 blocks with crafted length fields; secret lengths around every power of two up to 2^12 and 1000..1030.",
    }
}

fn streams(t: Tier) -> Vec<StreamDef> {
    vec![st("crafted", t.n(42 * 16 * 24, 42 * 16 * 400, 64, 42 * 16 * 8), true), st("random", t.n(100_000, 5_000_000, 64, 30_000), false), st("giant", t.n(12, 96, 0, 12), false)]
}

fn floors(t: Tier) -> Vec<(String, u64)> {
    if t == Tier::Miri {
        return vec![("reveal.err".into(), 20), ("reveal.ok".into(), 5)];
    }
    vec![
        ("reveal.ok".into(), 2000),
        ("reveal.err".into(), 10_000),
        ("guard.empty".into(), 100),
        ("guard.misaligned".into(), 1000),
        ("guard.length_lt6".into(), 1000),
        ("guard.length_exceeds_value".into(), 1000),
        ("guard.length_fits_exactly".into(), 500),
        ("thread_env.teardown_calls".into(), 500),
    ]
}

const LEN_SEL: usize = 16;

/// decrypted length field for selector `sel`, given the value size in octets
fn crafted_len(sel: usize, vlen: usize) -> u16 {
    let fit = (vlen - 2 + 6) as u16; // largest total length whose payload fits in the value
    match sel {
        0..=7 => sel as u16,
        8 => fit - 1,
        9 => fit,
        10 => fit + 1,
        11 => 1023,
        12 => 1024,
        13 => 0xffff,
        14 => fit + 16,
        _ => fit.saturating_sub(9).max(6),
    }
}

pub fn judge(ctx: &mut Ctx, attr: u16, value: &[u8], secret: &[u8], rv: [u8; 4], declared: Option<u16>) {
    let mut key = vec![(attr >> 8) as u8, attr as u8];
    key.extend_from_slice(value);
    key.extend_from_slice(secret);
    key.extend_from_slice(&rv);
    ctx.rep.case(&key, !value.is_empty() && value.len() % 16 == 0);
    let wit = J::obj(vec![
        ("attribute_type", J::U(attr as u64)),
        ("hidden_value_hex", J::hex(value)),
        ("secret_hex", J::hex(secret)),
        ("random_vector_hex", J::hex(&rv)),
        ("decrypted_length_field", match declared { Some(d) => J::U(d as u64), None => J::Null }),
    ]);
    // what the property requires
    let must_err = if value.is_empty() {
        ctx.rep.bucket("guard.empty");
        true
    } else if value.len() % 16 != 0 {
        ctx.rep.bucket("guard.misaligned");
        true
    } else {
        let p = shide::decrypt(attr, value, secret, &rv);
        let total = ((p[0] as usize) << 8) | p[1] as usize;
        if total < 6 {
            ctx.rep.bucket("guard.length_lt6");
            true
        } else if total - 6 > value.len() - 2 {
            ctx.rep.bucket("guard.length_exceeds_value");
            true
        } else {
            if total - 6 == value.len() - 2 {
                ctx.rep.bucket("guard.length_fits_exactly");
            }
            if total > 1023 {
                // fits inside a very long value but exceeds what an AVP can carry: the property
                // does not say which way this goes, so it is only counted
                ctx.rep.bucket("guard.length_gt1023_but_fits");
            }
            false
        }
    };
    // the value vector has exact capacity in half of the cases and spare capacity in the others:
    // only its length may matter
    let hv = if (value.len() + secret.len()) % 2 == 0 { exec::hidden_exact(attr, value) } else { exec::hidden_spare(attr, value, 16 * (1 + value.len() % 5)) };
    let direct = exec::reveal(hv, secret, rv);
    // the same call on a fresh thread, in its body and while the thread is torn down
    if ctx.tier != Tier::Miri && !direct.abnormal() && value.len() <= 4096 && secret.len() <= 4096 && ctx.rng.chance(1, 48) {
        let (v, s) = (value.to_vec(), secret.to_vec());
        thread_env_check(ctx, "C13", &direct, move || exec::reveal(exec::hidden_exact(attr, &v), &s, rv), wit.clone());
    }
    match direct {
        Out::Ok(a) => {
            ctx.rep.bucket("reveal.ok");
            if must_err {
                ctx.violate("C13:accepted-invalid-hidden-value", format!("reveal returned Ok({:?}) for a hidden value that must be rejected", a), wit);
            } else if a.attr != attr || a.hidden {
                ctx.violate("C13:wrong-attribute-type", format!("reveal of a hidden AVP announcing type {} returned {:?}", attr, a), wit);
            }
        }
        Out::Err(e) => {
            ctx.rep.bucket("reveal.err");
            if e.is_empty() {
                ctx.violate("C13:empty-error", "reveal returned an empty error", wit);
            }
        }
        Out::Panic(p) => {
            ctx.violate(format!("C13:reveal:panic:{}", p.class()), format!("reveal panicked: {} at {}:{}", p.message, p.file, p.line), wit);
        }
        Out::Budget => unreachable!(),
    }
}

fn run(ctx: &mut Ctx) {
    match ctx.stream {
        "crafted" => {
            let attr = (ctx.idx % 42) as u16;
            let sel = ((ctx.idx / 42) % LEN_SEL as u64) as usize;
            let blocks = if ctx.tier == Tier::Miri { *ctx.rng.pick(&[1usize, 1, 2, 2, 3, 5]) } else { *ctx.rng.pick(&[1usize, 1, 2, 2, 3, 5, 63, 64]) };
            let vlen = 16 * blocks;
            let secret = val::secret(&mut ctx.rng);
            let mut rv = [0u8; 4];
            rv.copy_from_slice(&ctx.rng.bytes(4));
            let declared = crafted_len(sel, vlen);
            // plaintext: chosen length field, then a payload that is valid for the kind when
            // possible (so that fitting lengths reach the per-type decoder's success path)
            let mut plain = vec![(declared >> 8) as u8, declared as u8];
            let body = if format_of(attr).is_some() && ctx.rng.bool() { crate::gen::wire::valid_payload(&mut ctx.rng, attr, vlen - 2) } else { ctx.rng.bytes(vlen - 2) };
            plain.extend_from_slice(&body);
            let value = shide::encrypt(attr, &plain, &secret, &rv);
            judge(ctx, attr, &value, &secret, rv, Some(declared));
            ctx.rep.sample(|| J::obj(vec![("attribute_type", J::U(attr as u64)), ("decrypted_length_field", J::U(declared as u64)), ("value_octets", J::U(vlen as u64)), ("hidden_value_hex", J::hex(&value[..value.len().min(32)]))]));
        }
        "giant" => {
            // hidden values of 2^12, 2^16, 2^16+1 and 2^17 blocks with a crafted decrypted length
            let blocks = *ctx.rng.pick(&[4_096usize, 65_535, 65_536, 65_537, 131_072]);
            let vlen = 16 * blocks;
            let attr = *ctx.rng.pick(&[7u16, 11, 26, 8]);
            // short secrets here: every block hashes the whole secret, and 10^5 blocks times a
            // 64 KiB secret is gigabytes of MD5 for one case
            let mut secret = val::secret(&mut ctx.rng);
            secret.truncate(64);
            let mut rv = [0u8; 4];
            rv.copy_from_slice(&ctx.rng.bytes(4));
            let declared = *ctx.rng.pick(&[6u16, 7, 20, 100, 1022, 1023, 1024, 0xffff, 5]);
            let mut plain = vec![0x61u8; vlen];
            plain[0] = (declared >> 8) as u8;
            plain[1] = declared as u8;
            let value = shide::encrypt(attr, &plain, &secret, &rv);
            ctx.rep.bucket("giant.values");
            judge(ctx, attr, &value, &secret, rv, Some(declared));
        }
        "random" => {
            let r = &mut ctx.rng;
            let attr = if r.chance(3, 4) { r.range(0, 41) as u16 } else { r.u16b() };
            let n = match r.below(10) {
                0 => 0,
                1 | 2 => r.range(0, 80) as usize,
                3..=6 => 16 * r.range(1, 5) as usize,
                7 => 1008,
                8 => 1024,
                _ => *r.pick(&[4096usize, 15, 17, 31, 33]),
            };
            let n = if ctx.tier == Tier::Miri { n.min(80) } else { n };
            let value = r.bytes(n);
            let secret = val::secret(r);
            let mut rv = [0u8; 4];
            rv.copy_from_slice(&r.bytes(4));
            judge(ctx, attr, &value, &secret, rv, None);
        }
        _ => unreachable!(),
    }
    let _ = glue::avp_variant_name;
}
