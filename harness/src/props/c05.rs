//! C05 The decoder accepts exactly the specified language with the specified values.

use super::common::*;
use super::*;
use crate::exec::{self, Out, Rk};
use crate::gen::wire;
use crate::report::J;
use crate::spec::decode as sdec;
use crate::spec::model::*;

pub fn def() -> PropDef {
    PropDef {
        id: "C05",
        num: 5,
        streams,
        run,
        floors,
        rule: "differential: the crate's verdict and value versus the independent reference decoder on the same (octets, options), all 8 option sets per input, and element-wise for try_read_greedy; plus non-interference (bits the reference never consulted are flipped and the crate's result must not change). Inputs as C01 (mutated reference encodings, exhaustive attribute x payload-length grid, truncations, bit flips, flag words, random). Distinct = distinct (input, option set); non-trivial = input of at least 6 octets whose verdict is decided after the flag word (not a bare version/reserved-bit rejection). Also: the public per-type decoders against the reference payload formats; top-of-range inputs; free-field sweeps (a 16-bit field the reference never consults is set to every value 0..255 and the usual boundaries).",
    }
}

fn streams(t: Tier) -> Vec<StreamDef> {
    vec![
        st("hostile", t.n(100_000, 4_000_000, 100, 20_000), false),
        st("avp_lengths", t.n(7052, 7052, 40, 7052), true),
        st("truncations", t.n(57 * 49, 57 * 49, 40, 57 * 49), true),
        st("bitflips", t.n(57 * 384, 57 * 384, 40, 57 * 384), true),
        st("flagwords", t.n(65536, 65536, 40, 65536), true),
        st("small_exhaustive", t.n(65793, 65793, 0, 65793), true),
        st("per_type", t.n(38 * 41 * 8, 38 * 41 * 64, 60, 38 * 41 * 8), true),
        st("big", t.n(320, 8000, 0, 320), false),
        st("payload_lengths", t.n(40 * 1018, 40 * 1018, 60, 40 * 1018), true),
        st("vendor_grid", t.n(wire::VENDOR_GRID, wire::VENDOR_GRID, 40, wire::VENDOR_GRID), true),
        st("text_grid", t.n(wire::TEXT_GRID, wire::TEXT_GRID, 60, wire::TEXT_GRID), true),
        st("lead_grid", t.n(wire::LEAD_GRID, wire::LEAD_GRID, 40, wire::LEAD_GRID), true),
        st("dict_grid", t.n(wire::dict_grid_count(), wire::dict_grid_count(), 40, wire::dict_grid_count().min(200_000)).min(wire::dict_grid_count()), wire::dict_grid_exhaustive(t == Tier::Quick || t == Tier::Thorough)),
    ]
}

fn floors(t: Tier) -> Vec<(String, u64)> {
    if t == Tier::Miri {
        return vec![("verdict.accept".into(), 5), ("verdict.reject".into(), 5)];
    }
    let mut f: Vec<(String, u64)> = vec![
        ("verdict.accept".into(), 5000),
        ("verdict.reject".into(), 5000),
        ("noninterference.flips".into(), 5000),
        ("avps.elements.ok".into(), 5000),
        ("avps.elements.err".into(), 1000),
        ("accepted.control".into(), 1000),
        ("accepted.data".into(), 1000),
        ("per_type.ok".into(), 1000),
        ("per_type.err".into(), 1000),
        ("payload_lengths.checked".into(), 40 * 1018),
    ];
    for (a, _, _) in crate::spec::tables::ATTRS.iter() {
        f.push((format!("kind.{}.ok", a), 1));
        if *a != 39 {
            f.push((format!("kind.{}.err", a), 1));
        }
    }
    f.push(("kind.hidden.ok".into(), 1));
    f
}

fn avp_kind_key(a: &SAvp) -> String {
    if a.hidden {
        "hidden".to_string()
    } else {
        format!("{}", a.attr)
    }
}

pub fn judge(ctx: &mut Ctx, b: &[u8], tag: &str) {
    for i in 0..8u8 {
        let o = SOpts::from_index(i);
        let spec = sdec::decode(b, o);
        let run = exec::decode_msg(b, Some(o), Rk::Slice);
        let trivial_reject = matches!(&spec.result, Err(e) if matches!(e[0], SErr::InvalidVersion(_) | SErr::ReservedBits | SErr::IncompleteFlags));
        let mut key = vec![i];
        key.extend_from_slice(b);
        ctx.rep.case(&key, b.len() >= 6 && !trivial_reject);
        match (&spec.result, &run.out) {
            (Ok(want), Out::Ok(got)) => {
                ctx.rep.bucket("verdict.accept");
                match want {
                    SMsg::Control(c) => {
                        ctx.rep.bucket("accepted.control");
                        for a in c.avps.iter() {
                            ctx.rep.bucket(&format!("kind.{}.ok", avp_kind_key(a)));
                        }
                    }
                    SMsg::Data(_) => ctx.rep.bucket("accepted.data"),
                }
                if want != got {
                    ctx.violate(
                        format!("C05:value-mismatch:{}", msg_diff_class(want, got)),
                        format!("both accept but values differ: reference {:?} crate {:?}", want, got),
                        w_input(b, Some(o)),
                    );
                }
            }
            (Err(_), Out::Err(_)) => {
                ctx.rep.bucket("verdict.reject");
                if let Err(e) = &spec.result {
                    ctx.rep.bucket(&format!("reject.{}", serr_name(&e[0])));
                }
            }
            (Ok(want), Out::Err(e)) => {
                ctx.violate(
                    format!("C05:accept-mismatch:reference-accepts:crate-rejects:{}", first_err_name(e)),
                    format!("reference accepts ({:?}) but crate rejects with {}", want, errs_str(e)),
                    w_input(b, Some(o)),
                );
            }
            (Err(e), Out::Ok(got)) => {
                ctx.violate(
                    format!("C05:accept-mismatch:reference-rejects:{}:crate-accepts", serr_name(&e[0])),
                    format!("reference rejects ({:?}) but crate accepts {:?}", e, got),
                    w_input(b, Some(o)),
                );
            }
            (Ok(_), Out::Panic(p)) => {
                ctx.violate(
                    format!("C05:accept-mismatch:reference-accepts:crate-panics:{}", p.class()),
                    format!("reference accepts but crate panicked: {} at {}:{}", p.message, p.file, p.line),
                    w_input(b, Some(o)),
                );
            }
            (Ok(_), Out::Budget) => {
                ctx.violate("C05:accept-mismatch:reference-accepts:crate-step-budget", "reference accepts but crate exceeded the step budget", w_input(b, Some(o)));
            }
            (Err(_), _) => {
                // a panic on input the reference rejects is C01's finding, not a verdict mismatch
                ctx.rep.bucket("verdict.abnormal_on_rejected_input");
            }
        }

        // accepted control / length-carrying data messages: also at the front of a > 4 GiB buffer
        if i == ((ctx.idx + 3) % 8) as u8 && ctx.rng.chance(1, 8) {
            if let (Ok(want), true) = (&spec.result, b.len() >= 4 && b[0] & 0x02 != 0) {
                // total sizes whose low 32 bits are tiny: 2^32 (or 2^33) plus 0..15 octets behind
                // the 12-octet header, and a few others
                let k = ctx.rng.below(16) as usize;
                let tail = *ctx.rng.pick(&[(0x1_0000_0000usize + 12 + k).saturating_sub(b.len()), (0x2_0000_0000usize + 12 + k).saturating_sub(b.len()), 0x1_0000_0000, 0x1_0000_0011, 1 << 36]);
                let r2 = exec::decode_msg(b, Some(o), Rk::VirtualTail(tail));
                ctx.rep.bucket("virtual_4gib_tail");
                match &r2.out {
                    Out::Ok(got) if got == want => {}
                    other => ctx.violate(
                        format!("C05:accept-mismatch:huge-buffer:{}", other.class()),
                        format!("the reference accepts ({:?}); with {} zero octets behind the input (which the declared length excludes) the crate gives {}", want, tail, out_str(other)),
                        J::obj(vec![("input_hex", J::hex(b)), ("virtual_zero_octets_appended", J::U(tail as u64)), ("options", J::s(opts_str(Some(o))))]),
                    ),
                }
            }
        }
        // non-interference: flip bits the reference did not consult (one option set per input to
        // bound the cost; rotates with the case index)
        if i == (ctx.idx % 8) as u8 && !b.is_empty() && !run.out.abnormal() {
            noninterference(ctx, b, o, &spec, &run.out);
        }
    }
    ctx.rep.bucket(&format!("gen.{}", tag));
    ctx.rep.bucket(&format!("size.{}", size_bucket(b.len())));
    let blen = b.len();
    ctx.rep.sample(|| J::obj(vec![("stream", J::s(tag)), ("input_hex", J::hex(&b[..blen.min(96)])), ("len", J::U(blen as u64)), ("option_sets", J::U(8))]));
}

fn noninterference(ctx: &mut Ctx, b: &[u8], o: SOpts, spec: &sdec::Decoded, base: &Out<SMsg>) {
    // collect free bit positions
    let mut free: Vec<(usize, u8)> = Vec::new();
    for (i, m) in spec.care.mask.iter().enumerate() {
        if *m != 0xff {
            for bit in 0..8 {
                if m & (1 << bit) == 0 {
                    free.push((i, bit));
                }
            }
        }
        if free.len() > 4096 {
            break;
        }
    }
    if free.is_empty() {
        return;
    }
    // free-field sweep: a 16-bit field the reference never consults (the attribute type or the
    // payload of a vendor-specific AVP, reserved octets, octets past a declared end) is walked
    // through all small values and the usual boundary values
    if ctx.rng.chance(1, 16) {
        let mut fields: Vec<usize> = Vec::new();
        let m = &spec.care.mask;
        let mut i = 0;
        while i + 1 < m.len() && fields.len() < 64 {
            if m[i] == 0 && m[i + 1] == 0 {
                fields.push(i);
                i += 2;
            } else {
                i += 1;
            }
        }
        if !fields.is_empty() {
            let at = *ctx.rng.pick(&fields);
            ctx.rep.bucket("noninterference.field_sweeps");
            let mut vals: Vec<u16> = (0u16..=255).collect();
            vals.extend_from_slice(&[256, 311, 529, 1023, 1024, 0x7fff, 0x8000, 0xfffe, 0xffff]);
            for v in vals {
                let mut b2 = b.to_vec();
                b2[at] = (v >> 8) as u8;
                b2[at + 1] = v as u8;
                if b2 == b {
                    continue;
                }
                let run2 = exec::decode_msg(&b2, Some(o), Rk::Slice);
                let same = match (base, &run2.out) {
                    (Out::Ok(a), Out::Ok(c)) => a == c,
                    (Out::Err(_), Out::Err(_)) => true,
                    _ => false,
                };
                if !same {
                    let spec2 = sdec::decode(&b2, o);
                    let spec_same = matches!((&spec.result, &spec2.result), (Ok(_), Ok(_)) | (Err(_), Err(_)));
                    if !spec_same {
                        ctx.rep.bucket("selfcheck.care_mask_unsound");
                        break;
                    }
                    ctx.violate(
                        format!("C05:interference:field-sweep:{}-to-{}", base.class(), run2.out.class()),
                        format!("setting the two octets at offset {} (consulted by no specified field) to {:#06x} changed the result: {} gives {}, {} gives {}", at, v, crate::report::hex(b), out_str(base), crate::report::hex(&b2), out_str(&run2.out)),
                        J::obj(vec![("input_hex", J::hex(b)), ("changed_hex", J::hex(&b2)), ("offset", J::U(at as u64)), ("options", J::s(opts_str(Some(o))))]),
                    );
                    break;
                }
            }
        }
    }
    for _ in 0..3 {
        let mut b2 = b.to_vec();
        let k = 1 + ctx.rng.below(3);
        for _ in 0..k {
            let (i, bit) = *ctx.rng.pick(&free);
            b2[i] ^= 1 << bit;
        }
        if b2 == b {
            continue;
        }
        ctx.rep.bucket("noninterference.flips");
        let spec2 = sdec::decode(&b2, o);
        let spec_same = match (&spec.result, &spec2.result) {
            (Ok(a), Ok(c)) => a == c,
            (Err(_), Err(_)) => true,
            _ => false,
        };
        if !spec_same {
            // the reference's own care mask is wrong: harness defect, not a property violation
            ctx.rep.bucket("selfcheck.care_mask_unsound");
            ctx.rep.notes.push(format!("care mask unsound: {} vs {} opts {:?}", crate::report::hex(b), crate::report::hex(&b2), o));
            continue;
        }
        let run2 = exec::decode_msg(&b2, Some(o), Rk::Slice);
        let same = match (base, &run2.out) {
            (Out::Ok(a), Out::Ok(c)) => a == c,
            (Out::Err(_), Out::Err(_)) => true,
            _ => false,
        };
        if !same {
            ctx.violate(
                format!("C05:interference:{}-to-{}", base.class(), run2.out.class()),
                format!(
                    "flipping bits outside every specified field changed the result: {} gives {}, {} gives {}",
                    crate::report::hex(b),
                    out_str(base),
                    crate::report::hex(&b2),
                    out_str(&run2.out)
                ),
                J::obj(vec![("input_hex", J::hex(b)), ("flipped_hex", J::hex(&b2)), ("options", J::s(opts_str(Some(o))))]),
            );
        }
    }
}

pub fn judge_avps(ctx: &mut Ctx, b: &[u8]) {
    let mut care = sdec::Care::new(b.len());
    let want = sdec::decode_avps(b, 0, &mut care);
    let run = exec::decode_avps(b, Rk::Slice);
    let mut key = vec![0xa0];
    key.extend_from_slice(b);
    ctx.rep.case(&key, b.len() >= 6);
    let got = match &run.out {
        Out::Ok(l) => l,
        _ => {
            ctx.rep.bucket("avps.abnormal");
            return;
        }
    };
    if want.len() != got.len() {
        ctx.violate(
            "C05:avps:record-count",
            format!("reference decodes {} records, crate {}: reference {:?} crate {:?}", want.len(), got.len(), want, got),
            w_input(b, None),
        );
        return;
    }
    for (k, (w, g)) in want.iter().zip(got.iter()).enumerate() {
        match (w, g) {
            (Ok(a), Ok(c)) => {
                ctx.rep.bucket("avps.elements.ok");
                ctx.rep.bucket(&format!("kind.{}.ok", avp_kind_key(a)));
                if a != c {
                    ctx.violate(format!("C05:avps:value-mismatch:attr{}", a.attr), format!("record {}: reference {:?} crate {:?}", k, a, c), w_input(b, None));
                }
            }
            (Err(e), Err(_)) => {
                ctx.rep.bucket("avps.elements.err");
                match e {
                    SErr::Incomplete(t) | SErr::BadUtf8(t) => ctx.rep.bucket(&format!("kind.{}.err", t)),
                    SErr::UnknownMessageType(_) => ctx.rep.bucket("kind.0.err"),
                    SErr::BadErrorType(_) => ctx.rep.bucket("kind.1.err"),
                    SErr::BadProxyType(_) => ctx.rep.bucket("kind.29.err"),
                    _ => {}
                }
            }
            (Ok(a), Err(e)) => {
                ctx.violate(
                    format!("C05:avps:accept-mismatch:reference-accepts-attr{}:crate-rejects", a.attr),
                    format!("record {}: reference {:?} crate Err({:?})", k, a, e),
                    w_input(b, None),
                );
            }
            (Err(e), Ok(c)) => {
                ctx.violate(
                    format!("C05:avps:accept-mismatch:reference-rejects:{}:crate-accepts", serr_name(e)),
                    format!("record {}: reference Err({:?}) crate {:?}", k, e, c),
                    w_input(b, None),
                );
            }
        }
    }
}

pub fn serr_name(e: &SErr) -> String {
    format!("{:?}", e).chars().take_while(|c| c.is_ascii_alphanumeric()).collect()
}

pub fn first_err_name(e: &[rl2tp::common::DecodeError]) -> String {
    match e.first() {
        Some(x) => format!("{:?}", x).chars().take_while(|c| c.is_ascii_alphanumeric()).collect(),
        None => "empty".to_string(),
    }
}

/// Which field differs (for the violation class)
pub fn msg_diff_class(a: &SMsg, b: &SMsg) -> String {
    match (a, b) {
        (SMsg::Control(x), SMsg::Control(y)) => {
            if x.length != y.length {
                "control.length".into()
            } else if x.tunnel != y.tunnel {
                "control.tunnel".into()
            } else if x.session != y.session {
                "control.session".into()
            } else if x.ns != y.ns {
                "control.ns".into()
            } else if x.nr != y.nr {
                "control.nr".into()
            } else if x.avps.len() != y.avps.len() {
                "control.avp-count".into()
            } else {
                for (p, q) in x.avps.iter().zip(y.avps.iter()) {
                    if p != q {
                        return format!("control.avp.attr{}", p.attr);
                    }
                }
                "control.?".into()
            }
        }
        (SMsg::Data(x), SMsg::Data(y)) => {
            if x.prio != y.prio {
                "data.priority".into()
            } else if x.length != y.length {
                "data.length".into()
            } else if x.tunnel != y.tunnel || x.session != y.session {
                "data.ids".into()
            } else if x.nsnr != y.nsnr {
                "data.nsnr".into()
            } else if x.offset != y.offset {
                "data.offset".into()
            } else {
                "data.payload".into()
            }
        }
        _ => "kind".into(),
    }
}

fn run(ctx: &mut Ctx) {
    match ctx.stream {
        "hostile" => {
            let (b, names) = wire::hostile(&mut ctx.rng);
            for n in names.iter() {
                ctx.rep.bucket(&format!("mut.{}", n));
            }
            judge(ctx, &b, "hostile");
            if b.len() > 12 {
                judge_avps(ctx, &b[12..]);
            }
        }
        "avp_lengths" => {
            let idx = ctx.idx;
            let b = super::c01::avp_length_case(&mut ctx.rng, idx);
            judge(ctx, &b, "avp_lengths");
            judge_avps(ctx, &b[12..]);
            judge_avps(ctx, &b[20..]);
        }
        "truncations" => {
            let i = (ctx.idx % 57) as usize;
            let cut = (ctx.idx / 57) as usize;
            let w = ctx.corpus()[i].bytes.clone();
            if cut <= w.len() {
                judge(ctx, &w[..cut], "truncation");
                if cut > 12 {
                    judge_avps(ctx, &w[12..cut]);
                }
            }
        }
        "bitflips" => {
            let i = (ctx.idx % 57) as usize;
            let bit = (ctx.idx / 57) as usize;
            let mut w = ctx.corpus()[i].bytes.clone();
            if bit / 8 < w.len() {
                w[bit / 8] ^= 1 << (bit % 8);
                judge(ctx, &w, "bitflip");
                if w.len() > 12 {
                    judge_avps(ctx, &w[12..]);
                }
            }
        }
        "flagwords" => {
            let w = ctx.idx as u16;
            let n = ctx.rng.below(3) as usize;
            let b = body_for_word(&mut ctx.rng, w, n);
            judge(ctx, &b, "flagword");
        }
        "small_exhaustive" => {
            let b = super::c01::small_input(ctx.idx);
            judge(ctx, &b, "small");
        }
        "vendor_grid" => {
            let idx = ctx.idx;
            let b = wire::vendor_grid_case(&mut ctx.rng, idx);
            judge(ctx, &b, "vendor_grid");
            judge_avps(ctx, &b[12..]);
        }
        "lead_grid" => {
            let idx = ctx.idx;
            let b = wire::lead_grid_case(&mut ctx.rng, idx);
            judge(ctx, &b, "lead_grid");
            judge_avps(ctx, &b[12..]);
        }
        "dict_grid" => {
            let idx = ctx.idx;
            let b = wire::dict_grid_case(&mut ctx.rng, idx);
            judge(ctx, &b, "dict_grid");
            judge_avps(ctx, &b[12..]);
        }
        "text_grid" => {
            let idx = ctx.idx;
            let b = wire::text_grid_case(&mut ctx.rng, idx);
            judge(ctx, &b, "text_grid");
            judge_avps(ctx, &b[12..]);
        }
        "payload_lengths" => {
            // every attribute (39 assigned + one unassigned) x every payload length 0..=1017: fixed
            // size kinds must ignore surplus octets at every length, not only short ones
            let k = (ctx.idx % 40) as usize;
            let len = (ctx.idx / 40) as usize;
            let attr = if k < 39 { crate::spec::tables::ATTRS[k].0 } else { 20 };
            let payload = wire::valid_payload(&mut ctx.rng, attr, len);
            let mut body = wire::message_type_record(1);
            body.extend_from_slice(&wire::raw_record(attr, false, 0, &payload, true));
            let msg = wire::control_around(&body, 1, 2, 3, 4);
            // one option set per case keeps this at about 40k decodes
            let o = SOpts::STRICT;
            let spec = sdec::decode(&msg, o);
            let run = exec::decode_msg(&msg, Some(o), Rk::Slice);
            let mut key = vec![b'L', attr as u8, (len >> 8) as u8, len as u8];
            key.extend_from_slice(&payload[..payload.len().min(8)]);
            ctx.rep.case(&key, true);
            ctx.rep.bucket("payload_lengths.checked");
            match (&spec.result, &run.out) {
                (Ok(w), Out::Ok(g)) if w == g => {}
                (Err(_), Out::Err(_)) => {}
                (w, g) => ctx.violate(
                    format!("C05:payload-length:attr{}:{}", attr, g.class()),
                    format!("attribute {} with a {}-octet payload: reference {}, crate {}", attr, len, if w.is_ok() { "accepts" } else { "rejects" }, out_str(g)),
                    J::obj(vec![("attribute_type", J::U(attr as u64)), ("payload_octets", J::U(len as u64)), ("input_hex", J::hex(&msg[..msg.len().min(80)]))]),
                ),
            }
            judge_avps(ctx, &msg[12..]);
        }
        "big" => match wire::big_input(&mut ctx.rng) {
            (wire::Big::Msg(b), tag) => {
                judge(ctx, &b, tag);
                if b.len() > 12 && b[0] & 1 == 1 {
                    judge_avps(ctx, &b[12..]);
                }
            }
            (wire::Big::Avps(b), tag) => {
                ctx.rep.bucket(&format!("gen.{}", tag));
                judge_avps(ctx, &b);
            }
        },
        "per_type" => {
            // the public per-type payload decoders against the reference's payload formats
            let k = (ctx.idx % 38) as usize;
            let len = ((ctx.idx / 38) % 41) as usize;
            let attr = super::c02::PER_TYPE[k];
            let p = if (ctx.idx / (38 * 41)) % 2 == 0 { wire::valid_payload(&mut ctx.rng, attr, len) } else { ctx.rng.bytes(len) };
            let mut care = sdec::Care::new(p.len());
            let want = sdec::decode_payload(attr, &p, 0, &mut care);
            let mut key = vec![b'T', attr as u8];
            key.extend_from_slice(&p);
            ctx.rep.case(&key, true);
            if let Some(run) = exec::decode_type(attr, &p, Rk::Slice) {
                let wit = J::obj(vec![("attribute_type", J::U(attr as u64)), ("payload_hex", J::hex(&p))]);
                match (&want, &run.out) {
                    (Ok(b), Out::Ok(a)) => {
                        ctx.rep.bucket("per_type.ok");
                        if a.attr != attr || a.hidden || &a.body != b {
                            ctx.violate(format!("C05:per-type:value-mismatch:attr{}", attr), format!("per-type decoder {} gives {:?}, reference {:?}", attr, a, b), wit);
                        }
                    }
                    (Err(_), Out::Err(_)) => ctx.rep.bucket("per_type.err"),
                    (Ok(b), Out::Err(e)) => ctx.violate(format!("C05:per-type:reference-accepts:crate-rejects:attr{}", attr), format!("reference {:?}, crate {}", b, errs_str(e)), wit),
                    (Err(e), Out::Ok(a)) => ctx.violate(format!("C05:per-type:reference-rejects:crate-accepts:attr{}", attr), format!("reference {:?}, crate {:?}", e, a), wit),
                    _ => ctx.rep.bucket("per_type.abnormal"),
                }
            }
        }
        _ => unreachable!(),
    }
}
