//! C02 The decoder never reads outside its input, whatever reader backs it.

use super::common::*;
use super::*;
use crate::exec::{self, Out, Rk, Run};
use crate::gen::wire;
use crate::monitor::reader::OP_NAMES;
use crate::report::J;
use crate::spec::model::*;
use crate::spec::tables::*;

pub fn def() -> PropDef {
    PropDef {
        id: "C02",
        num: 2,
        streams,
        run,
        floors,
        rule: "each input is decoded through SliceReader and three contract-checking readers (borrowing, owning, non-contiguous); every reader call is logged with the octets remaining; unchecked requests (u8/u16/u32/u64/skip/subreader) beyond what remains are breaches; results (and, on acceptance, final position) must agree across readers. Inputs: hostile mutations, every truncation of the corpus, every attribute x payload length 0..40 through the message path, and every public per-type decoder driven directly with payload lengths 0..40. Distinct = distinct (entry point, input) pairs; non-trivial = the contract reader served at least one unchecked request. Also: top-of-range inputs (over-long length fields behind 64 KiB of valid records), and crafted hidden values that put the per-type decoders inside reveal on both sides of their guards, with reveal's result compared with the per-type decoder over the same decrypted payload through the contract readers.",
    }
}

fn streams(t: Tier) -> Vec<StreamDef> {
    vec![
        st("hostile", t.n(60_000, 3_000_000, 64, 20_000), false),
        st("per_type", t.n(38 * 41 * 6, 38 * 41 * 40, 96, 38 * 41 * 6), true),
        st("truncations", t.n(57 * 49, 57 * 49, 40, 57 * 49), true),
        st("avp_lengths", t.n(7052, 7052, 40, 7052), true),
        st("flagwords", t.n(65536, 65536, 0, 65536), true),
        st("big", t.n(320, 8000, 0, 320), false),
        st("reveal", t.n(20_000, 1_000_000, 32, 8_000), false),
        st("vendor_grid", t.n(wire::VENDOR_GRID, wire::VENDOR_GRID, 0, wire::VENDOR_GRID), true),
        st("lead_grid", t.n(wire::LEAD_GRID, wire::LEAD_GRID, 40, wire::LEAD_GRID), true),
        st("dict_grid", t.n(wire::dict_grid_count(), wire::dict_grid_count(), 40, wire::dict_grid_count().min(200_000)).min(wire::dict_grid_count()), wire::dict_grid_exhaustive(t == Tier::Quick || t == Tier::Thorough)),
    ]
}

fn floors(t: Tier) -> Vec<(String, u64)> {
    if t == Tier::Miri {
        return vec![("unchecked.requests".into(), 50)];
    }
    let mut f = vec![("unchecked.requests".into(), 50_000), ("readers.compared".into(), 10_000), ("sub.readers".into(), 1000), ("bytes.refused_or_served".into(), 1000), ("reveal.ok".into(), 500), ("reveal.err".into(), 500)];
    for k in 0..38 {
        // every per-type decoder seen on both sides of its minimum-length guard
        f.push((format!("type.{}.ok", PER_TYPE[k]), 1));
        f.push((format!("type.{}.err", PER_TYPE[k]), 1));
    }
    f
}

/// attribute numbers that have a public per-type decoder
pub const PER_TYPE: [u16; 38] = [
    0, 1, 2, 3, 4, 5, 6, 7, 8, 9, 10, 11, 12, 13, 14, 15, 16, 17, 18, 19, 21, 22, 23, 24, 25, 26, 27, 28, 29, 30, 31, 32, 33, 34, 35, 36, 37, 38,
];

fn account<T>(ctx: &mut Ctx, what: &str, run: &Run<T>, b: &[u8], o: Option<SOpts>) -> u64 {
    let mut unchecked = 0;
    if let Some(l) = &run.log {
        let l = l.borrow();
        for (i, n) in l.by_op.iter().enumerate() {
            if *n > 0 {
                ctx.rep.bucket_n(&format!("op.{}", OP_NAMES[i]), *n);
            }
        }
        unchecked = l.by_op[2] + l.by_op[3] + l.by_op[4] + l.by_op[5] + l.by_op[6] + l.by_op[7];
        ctx.rep.bucket_n("unchecked.requests", unchecked);
        ctx.rep.bucket_n("sub.readers", l.subs);
        ctx.rep.bucket_n("bytes.refused_or_served", l.by_op[8]);
        ctx.rep.bucket_n("bytes.refused", l.bytes_refused);
        for br in l.breaches.iter() {
            let sig = format!("C02:breach:{}:{}", what, OP_NAMES[br.op as usize]);
            let detail = format!(
                "{}: reader call #{} {}({}) issued at input offset {} with only {} octets remaining in its window",
                what, br.seq, OP_NAMES[br.op as usize], br.requested, br.at, br.remaining
            );
            ctx.violate(sig, detail, w_input(b, o));
        }
    }
    unchecked
}

/// Compare the four readers on one message input under one option set.
pub fn judge_msg(ctx: &mut Ctx, b: &[u8], o: Option<SOpts>) {
    let base = exec::decode_msg(b, o, Rk::Slice);
    let mut unchecked = 0;
    let reentrant = Rk::Reentrant(1 + ctx.rng.below(40));
    for rk in [Rk::ContractSlice, Rk::ContractVec, Rk::Segmented(1 + (ctx.rng.below(5)) as usize), reentrant, Rk::Wiping] {
        let run = exec::decode_msg(b, o, rk);
        unchecked += account(ctx, "decode", &run, b, o);
        ctx.rep.bucket("readers.compared");
        if rk == Rk::Wiping {
            // a `T` that is a guard on the reader's shared storage (a `Ref` into a ring buffer)
            // must be released before the reader is used again, or that reader panics
            if let Some(l) = &run.log {
                let n = l.borrow().calls_with_live_lease;
                ctx.rep.bucket("lease_reader.decodes");
                if n > 0 {
                    ctx.rep.bucket("lease_reader.calls_with_live_lease");
                    ctx.violate(
                        "C02:reader-called-while-lease-alive",
                        format!("{} reader calls were made while a T handed out by an earlier bytes() call was still alive: a reader whose T is a guard on shared storage (RefCell-backed ring buffer) panics there, SliceReader does not", n),
                        w_input(b, o),
                    );
                }
            }
        }
        let agree = same_out(&base.out, &run.out) && (!base.out.is_ok() || base.remaining == run.remaining);
        if !agree {
            let sig = format!("C02:reader-divergence:decode:{}-vs-{}", base.out.class(), run.out.class());
            let detail = format!(
                "SliceReader gave {} (remaining {}) but {:?} gave {} (remaining {})",
                out_str(&base.out),
                base.remaining,
                rk,
                out_str(&run.out),
                run.remaining
            );
            ctx.violate(sig, detail, w_input(b, o));
        }
    }
    ctx.rep.bucket(&format!("decode.{}", base.out.class()));
    let mut key = vec![b'm', o.map(|o| o.index()).unwrap_or(9)];
    key.extend_from_slice(b);
    ctx.rep.case(&key, unchecked > 0);
}

pub fn judge_avps(ctx: &mut Ctx, b: &[u8]) {
    let base = exec::decode_avps(b, Rk::Slice);
    let mut unchecked = 0;
    for rk in [Rk::ContractSlice, Rk::ContractVec, Rk::Segmented(1 + (ctx.rng.below(5)) as usize)] {
        let run = exec::decode_avps(b, rk);
        unchecked += account(ctx, "decode_avps", &run, b, None);
        ctx.rep.bucket("readers.compared");
        let agree = same_out(&base.out, &run.out) && (!base.out.is_ok() || base.remaining == run.remaining);
        if !agree {
            let sig = format!("C02:reader-divergence:decode_avps:{}-vs-{}", base.out.class(), run.out.class());
            let detail = format!("SliceReader gave {} (remaining {}) but {:?} gave {} (remaining {})", out_str(&base.out), base.remaining, rk, out_str(&run.out), run.remaining);
            ctx.violate(sig, detail, w_input(b, None));
        }
    }
    let mut key = vec![b'a'];
    key.extend_from_slice(b);
    ctx.rep.case(&key, unchecked > 0);
}

pub fn judge_type(ctx: &mut Ctx, attr: u16, p: &[u8]) {
    let base = match exec::decode_type(attr, p, Rk::Slice) {
        Some(r) => r,
        None => return,
    };
    let what = format!("type{}", attr);
    let mut unchecked = 0;
    for rk in [Rk::ContractSlice, Rk::ContractVec, Rk::Segmented(1 + (ctx.rng.below(5)) as usize)] {
        let run = exec::decode_type(attr, p, rk).unwrap();
        unchecked += account(ctx, &what, &run, p, None);
        ctx.rep.bucket("readers.compared");
        if !same_out(&base.out, &run.out) {
            let sig = format!("C02:reader-divergence:{}:{}-vs-{}", what, base.out.class(), run.out.class());
            let detail = format!("per-type decoder {}: SliceReader gave {} but {:?} gave {}", attr, out_str(&base.out), rk, out_str(&run.out));
            ctx.violate(sig, detail, J::obj(vec![("attribute_type", J::U(attr as u64)), ("payload_hex", J::hex(p))]));
        }
    }
    match &base.out {
        Out::Ok(_) => ctx.rep.bucket(&format!("type.{}.ok", attr)),
        Out::Err(_) => ctx.rep.bucket(&format!("type.{}.err", attr)),
        _ => ctx.rep.bucket(&format!("type.{}.abnormal", attr)),
    }
    let mut key = vec![b't', attr as u8];
    key.extend_from_slice(p);
    ctx.rep.case(&key, unchecked > 0 || p.len() < min_len(format_of(attr).unwrap()));
}

fn run(ctx: &mut Ctx) {
    match ctx.stream {
        "hostile" => {
            let (b, _) = wire::hostile(&mut ctx.rng);
            if ctx.tier == Tier::Miri && b.len() > 400 {
                // kilobyte inputs through five byte-at-a-time readers cost the interpreter a minute
                // each; they are covered natively
                ctx.rep.bucket("miri.skipped_large_input");
                return;
            }
            let o = if ctx.rng.chance(1, 9) { None } else { Some(SOpts::from_index(ctx.rng.below(8) as u8)) };
            judge_msg(ctx, &b, o);
            if b.len() > 12 && ctx.rng.bool() {
                judge_avps(ctx, &b[12..]);
            }
            let blen = b.len();
            ctx.rep.sample(|| J::obj(vec![("stream", J::s("hostile")), ("input_hex", J::hex(&b[..blen.min(96)])), ("options", J::s(opts_str(o)))]));
        }
        "per_type" => {
            let k = (ctx.idx % 38) as usize;
            let len = ((ctx.idx / 38) % 41) as usize;
            let attr = PER_TYPE[k];
            let p = if ctx.idx / (38 * 41) % 2 == 0 { wire::valid_payload(&mut ctx.rng, attr, len) } else { ctx.rng.bytes(len) };
            judge_type(ctx, attr, &p);
            ctx.rep.sample(|| J::obj(vec![("stream", J::s("per_type")), ("attribute_type", J::U(attr as u64)), ("payload_hex", J::hex(&p))]));
        }
        "truncations" => {
            let i = (ctx.idx % 57) as usize;
            let cut = (ctx.idx / 57) as usize;
            let w = ctx.corpus()[i].bytes.clone();
            if cut <= w.len() {
                judge_msg(ctx, &w[..cut], Some(SOpts::STRICT));
                judge_msg(ctx, &w[..cut], Some(SOpts::NONE));
                if cut > 12 {
                    judge_avps(ctx, &w[12..cut]);
                }
            }
        }
        "avp_lengths" => {
            let idx = ctx.idx;
            let b = super::c01::avp_length_case(&mut ctx.rng, idx);
            judge_msg(ctx, &b, Some(SOpts::STRICT));
            judge_avps(ctx, &b[12..]);
        }
        "flagwords" => {
            let w = ctx.idx as u16;
            let n = ctx.rng.below(3) as usize;
            let b = body_for_word(&mut ctx.rng, w, n);
            let o = Some(SOpts::from_index(ctx.rng.below(8) as u8));
            judge_msg(ctx, &b, o);
        }
        "vendor_grid" => {
            let idx = ctx.idx;
            let b = wire::vendor_grid_case(&mut ctx.rng, idx);
            judge_msg(ctx, &b, Some(SOpts::from_index((idx % 8) as u8)));
            judge_avps(ctx, &b[12..]);
        }
        "lead_grid" => {
            let idx = ctx.idx;
            let b = wire::lead_grid_case(&mut ctx.rng, idx);
            judge_msg(ctx, &b, Some(SOpts::from_index((idx % 8) as u8)));
            judge_avps(ctx, &b[12..]);
        }
        "dict_grid" => {
            let idx = ctx.idx;
            let b = wire::dict_grid_case(&mut ctx.rng, idx);
            judge_msg(ctx, &b, Some(SOpts::from_index((idx % 8) as u8)));
            judge_avps(ctx, &b[12..]);
        }
        "reveal" => {
            // reveal builds a private SliceReader, so its requests cannot be logged; what can be
            // observed: (a) the debug build's unsafe-precondition checks, Miri and ASan abort the
            // worker on an out-of-range unchecked read (the value sits in an exact-size block),
            // (b) the result must equal the public per-type decoder run over the same decrypted
            // payload through the contract readers (which do log and check every request)
            let attr = PER_TYPE[ctx.rng.below(38) as usize];
            let blocks = if ctx.tier == Tier::Miri { *ctx.rng.pick(&[1usize, 1, 2, 3]) } else { *ctx.rng.pick(&[1usize, 1, 2, 3, 62, 63, 64]) };
            let vlen = 16 * blocks;
            let secret = crate::gen::val::secret(&mut ctx.rng);
            let mut rv = [0u8; 4];
            rv.copy_from_slice(&ctx.rng.bytes(4));
            let fmt_min = min_len(format_of(attr).unwrap());
            // declared payload length on both sides of the kind's minimum and of the value size
            let plen = match ctx.rng.below(6) {
                0 => fmt_min.saturating_sub(1),
                1 => fmt_min,
                2 => fmt_min + 1,
                3 => vlen - 2,
                4 => ctx.rng.below(vlen as u64 - 1) as usize,
                _ => (fmt_min + ctx.rng.below(4) as usize).min(vlen - 2),
            }
            .min(vlen - 2)
            .min(1017); // an AVP cannot be longer than 1023 octets in all
            // one case in five declares a length that does not fit the value (reveal must refuse it
            // without its private reader being asked for more than it holds)
            let hostile = ctx.rng.chance(1, 5);
            let declared = if hostile { *ctx.rng.pick(&[(vlen + 4) as u16, (vlen + 5) as u16, (vlen + 6) as u16, (vlen + 15) as u16, 1013, 1017, 1022, 1023, 1024, 0xffff]) } else { (plen + 6) as u16 };
            let mut plain = vec![(declared >> 8) as u8, declared as u8];
            let body = if ctx.rng.bool() { wire::valid_payload(&mut ctx.rng, attr, vlen - 2) } else { ctx.rng.bytes(vlen - 2) };
            plain.extend_from_slice(&body);
            let value = crate::spec::hide::encrypt(attr, &plain, &secret, &rv);
            let mut key = vec![b'r', attr as u8];
            key.extend_from_slice(&value);
            ctx.rep.case(&key, true);
            let got = exec::reveal(exec::hidden_exact(attr, &value), &secret, rv);
            ctx.rep.bucket(&format!("reveal.{}", got.class()));
            if let Out::Panic(p) = &got {
                if p.file.contains("slice_reader") {
                    ctx.violate(
                        "C02:reveal:private-reader-request-out-of-range",
                        format!("inside reveal the private SliceReader was asked for more than it holds ({} at {}:{}) - hidden value of {} octets, decrypted length field {}", p.message, p.file, p.line, vlen, declared),
                        J::obj(vec![("attribute_type", J::U(attr as u64)), ("hidden_value_hex", J::hex(&value[..value.len().min(64)])), ("value_octets", J::U(vlen as u64)), ("decrypted_length_field", J::U(declared as u64)), ("secret_hex", J::hex(&secret)), ("random_vector_hex", J::hex(&rv))]),
                    );
                }
                return;
            }
            if hostile {
                return;
            }
            let payload = &plain[2..2 + plen];
            for rk in [Rk::ContractSlice, Rk::ContractVec] {
                let run = exec::decode_type(attr, payload, rk).unwrap();
                account(ctx, &format!("type{}", attr), &run, payload, None);
                ctx.rep.bucket("readers.compared");
                // acceptance and value only: which error a rejection carries is not this check's business
                let agree = match (&got, &run.out) {
                    (Out::Ok(a), Out::Ok(b)) => a == b,
                    (Out::Err(_), Out::Err(_)) => true,
                    _ => false,
                };
                if !agree && !got.abnormal() {
                    ctx.violate(
                        format!("C02:reader-divergence:reveal-vs-type{}:{}-vs-{}", attr, got.class(), run.out.class()),
                        format!("reveal (private SliceReader) gives {} but the per-type decoder over the same {} decrypted payload octets through {:?} gives {}", out_str(&got), plen, rk, out_str(&run.out)),
                        J::obj(vec![("attribute_type", J::U(attr as u64)), ("hidden_value_hex", J::hex(&value)), ("secret_hex", J::hex(&secret)), ("random_vector_hex", J::hex(&rv)), ("decrypted_payload_hex", J::hex(payload))]),
                    );
                }
            }
        }
        "big" => match wire::big_input(&mut ctx.rng) {
            (wire::Big::Msg(b), _) => {
                let o = Some(SOpts::from_index(ctx.rng.below(8) as u8));
                judge_msg(ctx, &b, o);
                if b.len() > 12 && b[0] & 1 == 1 {
                    judge_avps(ctx, &b[12..]);
                }
            }
            (wire::Big::Avps(b), _) => judge_avps(ctx, &b),
        },
        _ => unreachable!(),
    }
}
