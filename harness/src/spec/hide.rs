//! Reference for RFC 2661 section 4.3 (hiding of AVP attribute values).
//!
//! Convention adopted from the crate (DESIGN 4.2): the two-octet original-length subfield holds
//! the original AVP's total length (value + 6-octet header).

use super::decode::{decode_payload, Care};
use super::md5::md5;
use super::model::*;

fn keystream_first(attr: u16, secret: &[u8], rv: &[u8]) -> [u8; 16] {
    let mut m = Vec::new();
    m.push((attr >> 8) as u8);
    m.push(attr as u8);
    m.extend_from_slice(secret);
    m.extend_from_slice(rv);
    md5(&m)
}

fn keystream_next(secret: &[u8], prev_cipher: &[u8]) -> [u8; 16] {
    let mut m = Vec::new();
    m.extend_from_slice(secret);
    m.extend_from_slice(prev_cipher);
    md5(&m)
}

/// Plaintext before encryption.
pub fn plaintext(payload: &[u8], lp: &[u8], ap: &[u8; 16]) -> Vec<u8> {
    let total = payload.len() + 6;
    let mut p = Vec::new();
    p.push((total >> 8) as u8);
    p.push(total as u8);
    p.extend_from_slice(payload);
    p.extend_from_slice(lp);
    let pad = (16 - p.len() % 16) % 16;
    p.extend_from_slice(&ap[..pad]);
    p
}

pub fn encrypt(attr: u16, plain: &[u8], secret: &[u8], rv: &[u8]) -> Vec<u8> {
    assert!(plain.len() % 16 == 0 && !plain.is_empty());
    let mut c = Vec::with_capacity(plain.len());
    let n = plain.len() / 16;
    for i in 0..n {
        let ks = if i == 0 { keystream_first(attr, secret, rv) } else { keystream_next(secret, &c[16 * (i - 1)..16 * i]) };
        for j in 0..16 {
            c.push(plain[16 * i + j] ^ ks[j]);
        }
    }
    c
}

pub fn decrypt(attr: u16, cipher: &[u8], secret: &[u8], rv: &[u8]) -> Vec<u8> {
    assert!(cipher.len() % 16 == 0 && !cipher.is_empty());
    let mut p = Vec::with_capacity(cipher.len());
    let n = cipher.len() / 16;
    for i in 0..n {
        let ks = if i == 0 { keystream_first(attr, secret, rv) } else { keystream_next(secret, &cipher[16 * (i - 1)..16 * i]) };
        for j in 0..16 {
            p.push(cipher[16 * i + j] ^ ks[j]);
        }
    }
    p
}

pub fn hide(attr: u16, payload: &[u8], secret: &[u8], rv: &[u8], lp: &[u8], ap: &[u8; 16]) -> Vec<u8> {
    encrypt(attr, &plaintext(payload, lp, ap), secret, rv)
}

pub fn reveal(attr: u16, value: &[u8], secret: &[u8], rv: &[u8]) -> Result<SAvp, SErr> {
    if value.is_empty() {
        return Err(SErr::HiddenEmpty);
    }
    if value.len() % 16 != 0 {
        return Err(SErr::HiddenMisaligned);
    }
    let p = decrypt(attr, value, secret, rv);
    let total = ((p[0] as usize) << 8) | p[1] as usize;
    if total < 6 || total > 1023 {
        return Err(SErr::HiddenLength(total as u16));
    }
    let plen = total - 6;
    if plen > p.len() - 2 {
        return Err(SErr::HiddenLength(total as u16));
    }
    let mut care = Care::new(0);
    let body = decode_payload(attr, &p[2..2 + plen], 0, &mut care)?;
    Ok(SAvp { attr, hidden: false, body })
}
