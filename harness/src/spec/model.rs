//! Value model of the reference specification. Deliberately generic (attribute number + body
//! shape) so that it shares nothing with the codec under test.

#[derive(Clone, Debug, PartialEq, Eq, Hash)]
pub enum SBody {
    /// 16-bit scalar (also enumerated codes: message type, proxy authen type)
    U16(u16),
    U32(u32),
    U64(u64),
    /// raw octets (variable or fixed width, per format table); also the value of a hidden AVP
    Bytes(Vec<u8>),
    /// UTF-8 text
    Str(String),
    Empty,
    /// result code, optional (error type, optional message)
    Result { code: u16, err: Option<(u16, Option<String>)> },
    Version { ver: u8, rev: u8 },
    Q931 { code: u16, msg: u8, adv: Option<String> },
    ProxyId(u8),
    CallErrors([u32; 6]),
    Accm([u8; 4], [u8; 4]),
}

#[derive(Clone, Debug, PartialEq, Eq, Hash)]
pub struct SAvp {
    pub attr: u16,
    pub hidden: bool,
    pub body: SBody,
}

#[derive(Clone, Debug, PartialEq, Eq, Hash)]
pub struct SControl {
    pub length: u16,
    pub tunnel: u16,
    pub session: u16,
    pub ns: u16,
    pub nr: u16,
    pub avps: Vec<SAvp>,
}

#[derive(Clone, Debug, PartialEq, Eq, Hash)]
pub struct SData {
    pub prio: bool,
    pub length: Option<u16>,
    pub tunnel: u16,
    pub session: u16,
    pub nsnr: Option<(u16, u16)>,
    pub offset: Option<u16>,
    pub data: Vec<u8>,
}

#[derive(Clone, Debug, PartialEq, Eq, Hash)]
pub enum SMsg {
    Control(SControl),
    Data(SData),
}

/// Validation options: (reserved, version, unused)
#[derive(Clone, Copy, Debug, PartialEq, Eq, Hash)]
pub struct SOpts {
    pub reserved: bool,
    pub version: bool,
    pub unused: bool,
}

impl SOpts {
    pub fn from_index(i: u8) -> SOpts {
        SOpts { reserved: i & 1 != 0, version: i & 2 != 0, unused: i & 4 != 0 }
    }
    pub fn index(&self) -> u8 {
        (self.reserved as u8) | ((self.version as u8) << 1) | ((self.unused as u8) << 2)
    }
    pub const STRICT: SOpts = SOpts { reserved: true, version: true, unused: true };
    pub const DEFAULT: SOpts = SOpts { reserved: false, version: true, unused: false };
    pub const NONE: SOpts = SOpts { reserved: false, version: false, unused: false };
}

/// Error classes the specification distinguishes. `value` carries the offending number where the
/// property says the error must carry one.
#[derive(Clone, Debug, PartialEq, Eq, Hash)]
pub enum SErr {
    // message level
    IncompleteFlags,
    InvalidVersion(u8),
    ReservedBits,
    ControlPriority,
    ControlOffset,
    ControlNoLength,
    ControlNoNsNr,
    ControlHeaderShort,
    ControlLengthTooSmall,
    ControlPayloadShort,
    TypeNotFirst,
    DataHeaderShort,
    DataOffset(u16),
    DataLengthTooSmall,
    DataPayloadShort,
    DataEmpty,
    // AVP level
    AvpLength(u16),
    Vendor(u16),
    UnknownAvp(u16),
    Incomplete(u16),
    UnknownMessageType(u16),
    BadUtf8(u16),
    BadErrorType(u16),
    BadProxyType(u16),
    // reveal
    HiddenEmpty,
    HiddenMisaligned,
    HiddenLength(u16),
}
