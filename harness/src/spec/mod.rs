//! Independent executable specification of the crate's L2TPv2 wire format (DESIGN section 4).
//! Nothing in this directory may refer to the codec under test.

pub mod decode;
pub mod encode;
pub mod hide;
pub mod md5;
pub mod model;
pub mod tables;

pub use model::*;
