//! Reference encoder: builds octets by plain concatenation, lengths computed up front.

use super::model::*;
use super::tables::*;

fn p16(v: &mut Vec<u8>, x: u16) {
    v.push((x >> 8) as u8);
    v.push(x as u8);
}
fn p32(v: &mut Vec<u8>, x: u32) {
    p16(v, (x >> 16) as u16);
    p16(v, x as u16);
}

/// Payload octets (after the 6-octet header) of an AVP value.
pub fn payload(a: &SAvp) -> Vec<u8> {
    let mut v = Vec::new();
    match &a.body {
        SBody::U16(x) => p16(&mut v, *x),
        SBody::U32(x) => p32(&mut v, *x),
        SBody::U64(x) => {
            p32(&mut v, (*x >> 32) as u32);
            p32(&mut v, *x as u32);
        }
        SBody::Bytes(b) => v.extend_from_slice(b),
        SBody::Str(s) => v.extend_from_slice(s.as_bytes()),
        SBody::Empty => {}
        SBody::Result { code, err } => {
            p16(&mut v, *code);
            if let Some((et, msg)) = err {
                p16(&mut v, *et);
                if let Some(m) = msg {
                    v.extend_from_slice(m.as_bytes());
                }
            }
        }
        SBody::Version { ver, rev } => {
            v.push(*ver);
            v.push(*rev);
        }
        SBody::Q931 { code, msg, adv } => {
            p16(&mut v, *code);
            v.push(*msg);
            if let Some(a) = adv {
                v.extend_from_slice(a.as_bytes());
            }
        }
        SBody::ProxyId(x) => {
            v.push(0);
            v.push(*x);
        }
        SBody::CallErrors(c) => {
            p16(&mut v, 0);
            for x in c.iter() {
                p32(&mut v, *x);
            }
        }
        SBody::Accm(s, r) => {
            p16(&mut v, 0);
            v.extend_from_slice(s);
            v.extend_from_slice(r);
        }
    }
    v
}

/// Whole AVP record. `None` when the record does not fit the 10-bit length field.
pub fn avp(a: &SAvp) -> Option<Vec<u8>> {
    let p = payload(a);
    let len = p.len() + 6;
    if len > 1023 {
        return None;
    }
    let mut v = Vec::with_capacity(len);
    // M bit always set by the encoder; H only on hidden AVPs; reserved bits zero;
    // top two bits = length bits 9..8
    let o0 = (((len >> 8) & 3) as u8) << 6 | 0x01 | if a.hidden { 0x02 } else { 0 };
    v.push(o0);
    v.push(len as u8);
    p16(&mut v, 0); // vendor id
    p16(&mut v, a.attr);
    v.extend_from_slice(&p);
    Some(v)
}

pub const VERSION: u16 = 2;

/// Whole message. `None` when a length does not fit its field.
pub fn message(m: &SMsg) -> Option<Vec<u8>> {
    match m {
        SMsg::Control(c) => {
            let mut body = Vec::new();
            for a in c.avps.iter() {
                body.extend_from_slice(&avp(a)?);
            }
            let total = 12 + body.len();
            if total > 65535 {
                return None;
            }
            let mut v = Vec::with_capacity(total);
            p16(&mut v, BIT_T | BIT_L | BIT_S | (VERSION << 4));
            p16(&mut v, total as u16);
            p16(&mut v, c.tunnel);
            p16(&mut v, c.session);
            p16(&mut v, c.ns);
            p16(&mut v, c.nr);
            v.extend_from_slice(&body);
            Some(v)
        }
        SMsg::Data(d) => {
            let mut w = VERSION << 4;
            if d.length.is_some() {
                w |= BIT_L;
            }
            if d.nsnr.is_some() {
                w |= BIT_S;
            }
            if d.offset.is_some() {
                w |= BIT_O;
            }
            if d.prio {
                w |= BIT_P;
            }
            let mut v = Vec::new();
            p16(&mut v, w);
            if let Some(l) = d.length {
                p16(&mut v, l);
            }
            p16(&mut v, d.tunnel);
            p16(&mut v, d.session);
            if let Some((ns, nr)) = d.nsnr {
                p16(&mut v, ns);
                p16(&mut v, nr);
            }
            if let Some(o) = d.offset {
                p16(&mut v, o);
            }
            v.extend_from_slice(&d.data);
            Some(v)
        }
    }
}

/// Size in octets of the encoding of a data message (for generators that want length = true size).
pub fn data_size(d: &SData) -> usize {
    2 + 4
        + if d.length.is_some() { 2 } else { 0 }
        + if d.nsnr.is_some() { 4 } else { 0 }
        + if d.offset.is_some() { 2 } else { 0 }
        + d.data.len()
}
