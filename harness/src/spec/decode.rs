//! Reference decoder. A straightforward index-based parser over `&[u8]`; every octet (or bit)
//! whose value it consults is recorded in a care mask so that non-interference can be tested.

use super::model::*;
use super::tables::*;

pub struct Care {
    pub mask: Vec<u8>,
}

impl Care {
    pub fn new(n: usize) -> Care {
        Care { mask: vec![0; n] }
    }
    fn bits(&mut self, at: usize, m: u8) {
        if at < self.mask.len() {
            self.mask[at] |= m;
        }
    }
    fn range(&mut self, from: usize, to: usize) {
        for i in from..to.min(self.mask.len()) {
            self.mask[i] = 0xff;
        }
    }
}

fn be16(b: &[u8], at: usize) -> u16 {
    ((b[at] as u16) << 8) | b[at + 1] as u16
}
fn be32(b: &[u8], at: usize) -> u32 {
    ((be16(b, at) as u32) << 16) | be16(b, at + 2) as u32
}
fn be64(b: &[u8], at: usize) -> u64 {
    ((be32(b, at) as u64) << 32) | be32(b, at + 4) as u64
}

fn utf8(b: &[u8]) -> Option<String> {
    // Independent UTF-8 validation per RFC 3629 (well-formed table of Unicode 3.9).
    let mut i = 0;
    let n = b.len();
    while i < n {
        let c = b[i];
        let (len, lo, hi) = match c {
            0x00..=0x7f => (1, 0x80, 0xbf),
            0xc2..=0xdf => (2, 0x80, 0xbf),
            0xe0 => (3, 0xa0, 0xbf),
            0xe1..=0xec => (3, 0x80, 0xbf),
            0xed => (3, 0x80, 0x9f),
            0xee..=0xef => (3, 0x80, 0xbf),
            0xf0 => (4, 0x90, 0xbf),
            0xf1..=0xf3 => (4, 0x80, 0xbf),
            0xf4 => (4, 0x80, 0x8f),
            _ => return None,
        };
        if i + len > n {
            return None;
        }
        if len >= 2 && !(b[i + 1] >= lo && b[i + 1] <= hi) {
            return None;
        }
        for k in 2..len {
            if !(b[i + k] >= 0x80 && b[i + k] <= 0xbf) {
                return None;
            }
        }
        i += len;
    }
    // Safe: validated above; from_utf8 is used only as a container conversion and its own verdict
    // is cross-checked in the self-check.
    String::from_utf8(b.to_vec()).ok()
}

pub fn utf8_ok(b: &[u8]) -> bool {
    utf8(b).is_some()
}

/// Decode one AVP payload (the octets after the 6-octet header) for a given attribute number.
/// `base` is the offset of the payload in the whole input, for the care mask.
pub fn decode_payload(attr: u16, p: &[u8], base: usize, care: &mut Care) -> Result<SBody, SErr> {
    let fmt = match format_of(attr) {
        Some(f) => f,
        None => return Err(SErr::UnknownAvp(attr)),
    };
    if p.len() < min_len(fmt) {
        return Err(SErr::Incomplete(attr));
    }
    let n = p.len();
    Ok(match fmt {
        Fmt::Code16 => {
            care.range(base, base + 2);
            let c = be16(p, 0);
            match attr {
                0 => {
                    if !message_type_assigned(c) {
                        return Err(SErr::UnknownMessageType(c));
                    }
                }
                29 => {
                    if !proxy_type_assigned(c) {
                        return Err(SErr::BadProxyType(c));
                    }
                }
                _ => unreachable!(),
            }
            SBody::U16(c)
        }
        Fmt::U16 => {
            care.range(base, base + 2);
            SBody::U16(be16(p, 0))
        }
        Fmt::U32 => {
            care.range(base, base + 4);
            SBody::U32(be32(p, 0))
        }
        Fmt::U64 => {
            care.range(base, base + 8);
            SBody::U64(be64(p, 0))
        }
        Fmt::Fixed(k) => {
            care.range(base, base + k);
            SBody::Bytes(p[..k].to_vec())
        }
        Fmt::VarBytes => {
            care.range(base, base + n);
            SBody::Bytes(p.to_vec())
        }
        Fmt::VarStr => {
            care.range(base, base + n);
            match utf8(p) {
                Some(s) => SBody::Str(s),
                None => return Err(SErr::BadUtf8(attr)),
            }
        }
        Fmt::Empty => SBody::Empty,
        Fmt::Result => {
            care.range(base, base + 2);
            let code = be16(p, 0);
            let err = if n >= 4 {
                care.range(base + 2, base + 4);
                let et = be16(p, 2);
                if !error_type_assigned(et) {
                    return Err(SErr::BadErrorType(et));
                }
                let msg = if n > 4 {
                    care.range(base + 4, base + n);
                    match utf8(&p[4..]) {
                        Some(s) => Some(s),
                        None => return Err(SErr::BadUtf8(attr)),
                    }
                } else {
                    None
                };
                Some((et, msg))
            } else {
                None
            };
            SBody::Result { code, err }
        }
        Fmt::Version => {
            care.range(base, base + 2);
            SBody::Version { ver: p[0], rev: p[1] }
        }
        Fmt::Q931 => {
            care.range(base, base + 3);
            let adv = if n > 3 {
                care.range(base + 3, base + n);
                match utf8(&p[3..]) {
                    Some(s) => Some(s),
                    None => return Err(SErr::BadUtf8(attr)),
                }
            } else {
                None
            };
            SBody::Q931 { code: be16(p, 0), msg: p[2], adv }
        }
        Fmt::ProxyId => {
            care.range(base + 1, base + 2);
            SBody::ProxyId(p[1])
        }
        Fmt::CallErrors => {
            care.range(base + 2, base + 26);
            let mut c = [0u32; 6];
            for i in 0..6 {
                c[i] = be32(p, 2 + 4 * i);
            }
            SBody::CallErrors(c)
        }
        Fmt::Accm => {
            care.range(base + 2, base + 10);
            SBody::Accm([p[2], p[3], p[4], p[5]], [p[6], p[7], p[8], p[9]])
        }
    })
}

/// Decode a region of AVP records. One entry per record, in wire order; parsing stops at a record
/// whose length field is unusable (< 6 or reaching past the region). Fewer than 6 trailing octets
/// are ignored.
pub fn decode_avps(b: &[u8], base: usize, care: &mut Care) -> Vec<Result<SAvp, SErr>> {
    let mut out = Vec::new();
    let mut at = 0usize;
    while b.len() - at >= 6 {
        // first octet: M = bit 0 (ignored), H = bit 1, bits 2..5 reserved (ignored),
        // bits 6..7 = length bits 9..8
        care.bits(base + at, 0xc2);
        care.range(base + at + 1, base + at + 2);
        let len = (((b[at] >> 6) as usize) << 8) | b[at + 1] as usize;
        // the crate reads vendor id and attribute type before judging the length; whether they
        // matter for an unusable length is not observable, mark them cared only when used
        if len < 6 || len - 6 > b.len() - at - 6 {
            let reported = if len < 6 { len as u16 } else { (len - 6) as u16 };
            out.push(Err(SErr::AvpLength(reported)));
            break;
        }
        let hidden = b[at] & 0x02 != 0;
        care.range(base + at + 2, base + at + 4);
        let vendor = be16(b, at + 2);
        let pl = &b[at + 6..at + len];
        if vendor != 0 {
            out.push(Err(SErr::Vendor(vendor)));
            at += len;
            continue;
        }
        care.range(base + at + 4, base + at + 6);
        let attr = be16(b, at + 4);
        if hidden {
            care.range(base + at + 6, base + at + len);
            out.push(Ok(SAvp { attr, hidden: true, body: SBody::Bytes(pl.to_vec()) }));
        } else {
            match decode_payload(attr, pl, base + at + 6, care) {
                Ok(body) => out.push(Ok(SAvp { attr, hidden: false, body })),
                Err(e) => out.push(Err(e)),
            }
        }
        at += len;
    }
    out
}

pub struct Decoded {
    pub result: Result<SMsg, Vec<SErr>>,
    /// octets consumed from the input when accepted (position of the reader afterwards)
    pub consumed: usize,
    pub care: Care,
}

pub fn decode(b: &[u8], o: SOpts) -> Decoded {
    let mut care = Care::new(b.len());
    let (result, consumed) = decode_inner(b, o, &mut care);
    Decoded { result, consumed, care }
}

fn decode_inner(b: &[u8], o: SOpts, care: &mut Care) -> (Result<SMsg, Vec<SErr>>, usize) {
    if b.len() < 2 {
        return (Err(vec![SErr::IncompleteFlags]), 0);
    }
    let w = be16(b, 0);
    // bit i of the word lives in octet 0 for i >= 8, octet 1 otherwise
    let mut care_word: u16 = BIT_T;
    if o.version {
        care_word |= VERSION_MASK;
        let v = ((w & VERSION_MASK) >> 4) as u8;
        if v != 2 {
            mark_word(care, care_word);
            return (Err(vec![SErr::InvalidVersion(v)]), 2);
        }
    }
    if o.reserved {
        care_word |= RESERVED_MASK;
        if w & RESERVED_MASK != 0 {
            mark_word(care, care_word);
            return (Err(vec![SErr::ReservedBits]), 2);
        }
    }
    if w & BIT_T != 0 {
        // control
        if o.unused {
            care_word |= BIT_P | BIT_O;
        }
        care_word |= BIT_L | BIT_S;
        mark_word(care, care_word);
        if o.unused && w & BIT_P != 0 {
            return (Err(vec![SErr::ControlPriority]), 2);
        }
        if o.unused && w & BIT_O != 0 {
            return (Err(vec![SErr::ControlOffset]), 2);
        }
        if w & BIT_L == 0 {
            return (Err(vec![SErr::ControlNoLength]), 2);
        }
        if w & BIT_S == 0 {
            return (Err(vec![SErr::ControlNoNsNr]), 2);
        }
        if b.len() < 12 {
            return (Err(vec![SErr::ControlHeaderShort]), 2);
        }
        care.range(2, 12);
        let length = be16(b, 2) as usize;
        if length < 12 {
            return (Err(vec![SErr::ControlLengthTooSmall]), 12);
        }
        if length > b.len() {
            return (Err(vec![SErr::ControlPayloadShort]), 12);
        }
        let recs = decode_avps(&b[12..length], 12, care);
        if let Some(first) = recs.first() {
            match first {
                Ok(SAvp { attr: 0, hidden: false, .. }) => {}
                _ => return (Err(vec![SErr::TypeNotFirst]), length),
            }
        }
        let errs: Vec<SErr> = recs.iter().filter_map(|r| r.clone().err()).collect();
        if !errs.is_empty() {
            return (Err(errs), length);
        }
        let avps = recs.into_iter().map(|r| r.unwrap()).collect();
        (
            Ok(SMsg::Control(SControl {
                length: length as u16,
                tunnel: be16(b, 4),
                session: be16(b, 6),
                ns: be16(b, 8),
                nr: be16(b, 10),
                avps,
            })),
            length,
        )
    } else {
        // data
        care_word |= BIT_L | BIT_S | BIT_O | BIT_P;
        mark_word(care, care_word);
        let has_l = w & BIT_L != 0;
        let has_s = w & BIT_S != 0;
        let has_o = w & BIT_O != 0;
        let fixed = 2 + 4 + if has_l { 2 } else { 0 } + if has_s { 4 } else { 0 } + if has_o { 2 } else { 0 };
        if b.len() < fixed {
            return (Err(vec![SErr::DataHeaderShort]), 2);
        }
        care.range(2, fixed);
        let mut at = 2;
        let length = if has_l {
            at += 2;
            Some(be16(b, at - 2))
        } else {
            None
        };
        let tunnel = be16(b, at);
        let session = be16(b, at + 2);
        at += 4;
        let nsnr = if has_s {
            at += 4;
            Some((be16(b, at - 4), be16(b, at - 2)))
        } else {
            None
        };
        if has_o {
            let osz = be16(b, at) as usize;
            at += 2;
            if osz > b.len() - at {
                return (Err(vec![SErr::DataOffset(osz as u16)]), at);
            }
            at += osz;
        }
        let end = match length {
            Some(l) => {
                let l = l as usize;
                if l < at {
                    return (Err(vec![SErr::DataLengthTooSmall]), at);
                }
                if l > b.len() {
                    return (Err(vec![SErr::DataPayloadShort]), at);
                }
                l
            }
            None => b.len(),
        };
        if end == at {
            return (Err(vec![SErr::DataEmpty]), at);
        }
        care.range(at, end);
        (
            Ok(SMsg::Data(SData {
                prio: w & BIT_P != 0,
                length,
                tunnel,
                session,
                nsnr,
                offset: None,
                data: b[at..end].to_vec(),
            })),
            end,
        )
    }
}

fn mark_word(care: &mut Care, word: u16) {
    care.bits(0, (word >> 8) as u8);
    care.bits(1, (word & 0xff) as u8);
}
