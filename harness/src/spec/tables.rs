//! RFC 2661 tables: attribute numbers, payload formats, enumerated code points.

#[derive(Clone, Copy, Debug, PartialEq, Eq)]
pub enum Fmt {
    /// 16-bit enumerated code; which table is selected by the attribute number
    Code16,
    U16,
    U32,
    U64,
    /// fixed number of raw octets
    Fixed(usize),
    /// one or more raw octets
    VarBytes,
    /// one or more octets of UTF-8
    VarStr,
    Empty,
    Result,
    Version,
    Q931,
    /// one reserved octet then one value octet
    ProxyId,
    /// two reserved octets then six 32-bit counters
    CallErrors,
    /// two reserved octets then two 4-octet masks
    Accm,
}

/// (attribute number, RFC 2661 section 4.4 name spelled as an identifier, payload format)
pub const ATTRS: [(u16, &str, Fmt); 39] = [
    (0, "MessageType", Fmt::Code16),
    (1, "ResultCode", Fmt::Result),
    (2, "ProtocolVersion", Fmt::Version),
    (3, "FramingCapabilities", Fmt::U32),
    (4, "BearerCapabilities", Fmt::U32),
    (5, "TieBreaker", Fmt::U64),
    (6, "FirmwareRevision", Fmt::U16),
    (7, "HostName", Fmt::VarBytes),
    (8, "VendorName", Fmt::VarStr),
    (9, "AssignedTunnelId", Fmt::U16),
    (10, "ReceiveWindowSize", Fmt::U16),
    (11, "Challenge", Fmt::VarBytes),
    (12, "Q931CauseCode", Fmt::Q931),
    (13, "ChallengeResponse", Fmt::Fixed(16)),
    (14, "AssignedSessionId", Fmt::U16),
    (15, "CallSerialNumber", Fmt::U32),
    (16, "MinimumBps", Fmt::U32),
    (17, "MaximumBps", Fmt::U32),
    (18, "BearerType", Fmt::U32),
    (19, "FramingType", Fmt::U32),
    // 20 is unassigned in RFC 2661
    (21, "CalledNumber", Fmt::VarStr),
    (22, "CallingNumber", Fmt::VarStr),
    (23, "SubAddress", Fmt::VarStr),
    (24, "TxConnectSpeed", Fmt::U32),
    (25, "PhysicalChannelId", Fmt::Fixed(4)),
    (26, "InitialReceivedLcpConfReq", Fmt::VarBytes),
    (27, "LastSentLcpConfReq", Fmt::VarBytes),
    (28, "LastReceivedLcpConfReq", Fmt::VarBytes),
    (29, "ProxyAuthenType", Fmt::Code16),
    (30, "ProxyAuthenName", Fmt::VarBytes),
    (31, "ProxyAuthenChallenge", Fmt::VarBytes),
    (32, "ProxyAuthenId", Fmt::ProxyId),
    (33, "ProxyAuthenResponse", Fmt::VarBytes),
    (34, "CallErrors", Fmt::CallErrors),
    (35, "Accm", Fmt::Accm),
    (36, "RandomVector", Fmt::Fixed(4)),
    (37, "PrivateGroupId", Fmt::VarBytes),
    (38, "RxConnectSpeed", Fmt::U32),
    (39, "SequencingRequired", Fmt::Empty),
];

pub fn format_of(attr: u16) -> Option<Fmt> {
    ATTRS.iter().find(|(a, _, _)| *a == attr).map(|(_, _, f)| *f)
}

pub fn name_of(attr: u16) -> Option<&'static str> {
    ATTRS.iter().find(|(a, _, _)| *a == attr).map(|(_, n, _)| *n)
}

/// Minimum payload octets for a format to decode.
pub fn min_len(f: Fmt) -> usize {
    match f {
        Fmt::Code16 | Fmt::U16 | Fmt::Version | Fmt::ProxyId | Fmt::Result => 2,
        Fmt::U32 => 4,
        Fmt::U64 => 8,
        Fmt::Fixed(n) => n,
        Fmt::VarBytes | Fmt::VarStr => 1,
        Fmt::Empty => 0,
        Fmt::Q931 => 3,
        Fmt::CallErrors => 26,
        Fmt::Accm => 10,
    }
}

/// RFC 2661 section 3.2 message types (code, name spelled as an identifier)
pub const MESSAGE_TYPES: [(u16, &str); 14] = [
    (1, "StartControlConnectionRequest"),
    (2, "StartControlConnectionReply"),
    (3, "StartControlConnectionConnected"),
    (4, "StopControlConnectionNotification"),
    (6, "Hello"),
    (7, "OutgoingCallRequest"),
    (8, "OutgoingCallReply"),
    (9, "OutgoingCallConnected"),
    (10, "IncomingCallRequest"),
    (11, "IncomingCallReply"),
    (12, "IncomingCallConnected"),
    (14, "CallDisconnectNotify"),
    (15, "WanErrorNotify"),
    (16, "SetLinkInfo"),
];

/// RFC 2661 section 4.4.2 general error codes
pub const ERROR_TYPES: [(u16, &str); 9] = [
    (0, "Ok"),
    (1, "NoControlConnectionExists"),
    (2, "WrongLength"),
    (3, "OutOfRangeOrBadReserved"),
    (4, "InsufficientResources"),
    (5, "InvalidSessionId"),
    (6, "Generic"),
    (7, "TryAnotherDestination"),
    (8, "UnknownMandatoryAvp"),
];

/// RFC 2661 section 4.4.5 proxy authen types
pub const PROXY_AUTHEN_TYPES: [(u16, &str); 6] = [
    (0, "Reserved"),
    (1, "TextualUserNamePasswordExchange"),
    (2, "PppChap"),
    (3, "PppPap"),
    (4, "NoAuthentication"),
    (5, "MicrosoftChapVersion1"),
];

/// RFC 2661 section 4.4.2 StopCCN result codes
pub const STOP_CCN_CODES: [(u16, &str); 8] = [
    (0, "Reserved"),
    (1, "GeneralRequestToClearControlConnection"),
    (2, "GeneralError"),
    (3, "ControlChannelAlreadyExists"),
    (4, "RequesterNotAuthorizedToEstablishControlChannel"),
    (5, "RequesterProtocolVersionUnsupported"),
    (6, "RequesterShutdown"),
    (7, "FsmError"),
];

/// RFC 2661 section 4.4.2 CDN result codes
pub const CDN_CODES: [(u16, &str); 12] = [
    (0, "Reserved"),
    (1, "CallDisconnectedLossOfCarrier"),
    (2, "CallDisconnectedWithErrorCode"),
    (3, "CallDisconnectedAdministrative"),
    (4, "CallFailedTemporarilyUnavailable"),
    (5, "CallFailedPermanentlyUnavailable"),
    (6, "InvalidDestination"),
    (7, "CallFailedNoCarrier"),
    (8, "CallFailedBusySignal"),
    (9, "CallFailedNoDialTone"),
    (10, "CallEstablishTimeout"),
    (11, "CallNoFramingDetected"),
];

pub fn message_type_assigned(c: u16) -> bool {
    MESSAGE_TYPES.iter().any(|(x, _)| *x == c)
}
pub fn error_type_assigned(c: u16) -> bool {
    c <= 8
}
pub fn proxy_type_assigned(c: u16) -> bool {
    c <= 5
}

/// Message flag word, in the numbering the crate documents (big-endian u16 of the first two
/// octets): T=8, L=9, S=12, O=14, P=15, version = bits 4..7, everything else reserved.
pub const BIT_T: u16 = 1 << 8;
pub const BIT_L: u16 = 1 << 9;
pub const BIT_S: u16 = 1 << 12;
pub const BIT_O: u16 = 1 << 14;
pub const BIT_P: u16 = 1 << 15;
pub const VERSION_MASK: u16 = 0x00f0;
pub const RESERVED_MASK: u16 = !(BIT_T | BIT_L | BIT_S | BIT_O | BIT_P | VERSION_MASK);
