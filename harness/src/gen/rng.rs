//! xoshiro256** seeded through splitmix64. Every case owns a generator that is a pure function of
//! (run seed, property, stream, case index), so any single case can be replayed on its own.

#[derive(Clone)]
pub struct Rng {
    s: [u64; 4],
    /// one case in sixteen draws half of its integers from the source-literal dictionary (G-dict),
    /// so that conditions on two or three fields at once are met
    heavy: bool,
    /// the last integers and short octet strings this case drew: one draw in twelve repeats an
    /// earlier one, so that two independently generated fields are equal far more often than
    /// chance (2^-16 .. 2^-64) would make them
    seen_ints: [u64; 4],
    n_seen: usize,
    seen_bytes: Vec<Vec<u8>>,
}

fn splitmix(x: &mut u64) -> u64 {
    *x = x.wrapping_add(0x9e3779b97f4a7c15);
    let mut z = *x;
    z = (z ^ (z >> 30)).wrapping_mul(0xbf58476d1ce4e5b9);
    z = (z ^ (z >> 27)).wrapping_mul(0x94d049bb133111eb);
    z ^ (z >> 31)
}

impl Rng {
    pub fn new(seed: u64) -> Rng {
        let mut x = seed;
        Rng { s: [splitmix(&mut x), splitmix(&mut x), splitmix(&mut x), splitmix(&mut x)], heavy: false, seen_ints: [0; 4], n_seen: 0, seen_bytes: Vec::new() }
    }
    pub fn for_case(seed: u64, prop: u32, stream: u32, idx: u64) -> Rng {
        let mut x = seed ^ 0x5eed_0000_0000_0000;
        let a = splitmix(&mut x);
        let mut y = a ^ ((prop as u64) << 32 | stream as u64);
        let b = splitmix(&mut y);
        let mut z = b ^ idx.wrapping_mul(0xd1342543de82ef95);
        let c = splitmix(&mut z);
        let mut r = Rng::new(c);
        r.heavy = splitmix(&mut z) >> 60 == 0;
        r
    }
    fn remember(&mut self, v: u64) -> u64 {
        self.seen_ints[self.n_seen % 4] = v;
        self.n_seen += 1;
        v
    }
    /// An integer drawn earlier in this case that fits `max`.
    fn again(&mut self, max: u64) -> Option<u64> {
        if self.n_seen == 0 || !self.chance(1, 12) {
            return None;
        }
        let k = self.n_seen.min(4);
        let v = self.seen_ints[self.below(k as u64) as usize];
        if v <= max {
            Some(v)
        } else {
            None
        }
    }
    pub fn dict_heavy(&self) -> bool {
        self.heavy && !super::dict::get().ints.is_empty()
    }
    /// A literal of the source under test (or a neighbour) that fits `max`: rarely in ordinary
    /// cases, every other draw in dictionary-heavy ones. `None` most of the time, and always when
    /// no dictionary was supplied (no random numbers are consumed then).
    pub fn dict_int(&mut self, max: u64) -> Option<u64> {
        let d = super::dict::get();
        if d.ints.is_empty() {
            return None;
        }
        let hit = if self.heavy { self.chance(1, 2) } else { self.chance(1, 24) };
        if !hit {
            return None;
        }
        let v = *self.pick(&d.ints);
        let v = match self.below(8) {
            0 => v.wrapping_add(1),
            1 => v.wrapping_sub(1),
            _ => v,
        };
        if v <= max {
            Some(v)
        } else {
            None
        }
    }
    pub fn next(&mut self) -> u64 {
        let r = self.s[1].wrapping_mul(5).rotate_left(7).wrapping_mul(9);
        let t = self.s[1] << 17;
        self.s[2] ^= self.s[0];
        self.s[3] ^= self.s[1];
        self.s[1] ^= self.s[2];
        self.s[0] ^= self.s[3];
        self.s[2] ^= t;
        self.s[3] = self.s[3].rotate_left(45);
        r
    }
    /// uniform in 0..n (n > 0)
    pub fn below(&mut self, n: u64) -> u64 {
        debug_assert!(n > 0);
        // multiply-shift; bias negligible for the sizes used here
        ((self.next() as u128 * n as u128) >> 64) as u64
    }
    pub fn range(&mut self, lo: u64, hi_incl: u64) -> u64 {
        lo + self.below(hi_incl - lo + 1)
    }
    pub fn chance(&mut self, num: u64, den: u64) -> bool {
        self.below(den) < num
    }
    pub fn bool(&mut self) -> bool {
        self.next() & 1 == 1
    }
    pub fn pick<'a, T>(&mut self, xs: &'a [T]) -> &'a T {
        &xs[self.below(xs.len() as u64) as usize]
    }
    pub fn bytes(&mut self, n: usize) -> Vec<u8> {
        let mut v = Vec::with_capacity(n);
        while v.len() < n {
            let x = self.next().to_le_bytes();
            let k = (n - v.len()).min(8);
            v.extend_from_slice(&x[..k]);
        }
        if n > 0 && self.dict_heavy() && self.chance(1, 4) {
            self.plant_literal(&mut v);
        }
        if n > 0 && n <= 64 {
            // short octet strings (random vectors, challenges, fixed-size values, secrets): repeat an
            // earlier one of this case now and then, whole when the sizes agree, else as a prefix
            if !self.seen_bytes.is_empty() && self.chance(1, 12) {
                let i = self.below(self.seen_bytes.len() as u64) as usize;
                let k = self.seen_bytes[i].len().min(n);
                let src = self.seen_bytes[i][..k].to_vec();
                v[..k].copy_from_slice(&src);
            } else if self.seen_bytes.len() < 4 {
                self.seen_bytes.push(v.clone());
            }
        }
        v
    }
    /// Overwrite a few octets (at the start, at the end or anywhere) with a source literal: a
    /// number in big-endian form of its natural width, or a string literal.
    fn plant_literal(&mut self, v: &mut [u8]) {
        let d = super::dict::get();
        let lit: Vec<u8> = if !d.strs.is_empty() && self.chance(1, 3) {
            self.pick(&d.strs).clone()
        } else {
            let x = *self.pick(&d.ints);
            if x < 0x100 {
                vec![x as u8]
            } else if x < 0x1_0000 {
                (x as u16).to_be_bytes().to_vec()
            } else if x < 0x1_0000_0000 {
                (x as u32).to_be_bytes().to_vec()
            } else {
                x.to_be_bytes().to_vec()
            }
        };
        let k = lit.len().min(v.len());
        let at = match self.below(3) {
            0 => 0,
            1 => v.len() - k,
            _ => self.below((v.len() - k + 1) as u64) as usize,
        };
        v[at..at + k].copy_from_slice(&lit[..k]);
    }
    /// random octets of a random length in lo..=hi
    pub fn bytes_range(&mut self, lo: u64, hi: u64) -> Vec<u8> {
        let n = self.range(lo, hi) as usize;
        self.bytes(n)
    }
    pub fn u8(&mut self) -> u8 {
        if self.heavy {
            if let Some(v) = self.dict_int(0xff) {
                return v as u8;
            }
        }
        self.next() as u8
    }
    /// boundary-biased integers
    pub fn u16b(&mut self) -> u16 {
        if let Some(v) = self.again(0xffff) {
            return v as u16;
        }
        if let Some(v) = self.dict_int(0xffff) {
            return self.remember(v) as u16;
        }
        let v = self.u16b_plain();
        self.remember(v as u64) as u16
    }
    fn u16b_plain(&mut self) -> u16 {
        const B: [u16; 12] = [0, 1, 2, 0x7f, 0x80, 0xff, 0x100, 0x3ff, 0x7fff, 0x8000, 0xfffe, 0xffff];
        if self.chance(1, 2) {
            *self.pick(&B)
        } else {
            self.next() as u16
        }
    }
    pub fn u32b(&mut self) -> u32 {
        if let Some(v) = self.again(0xffff_ffff) {
            return v as u32;
        }
        if let Some(v) = self.dict_int(0xffff_ffff) {
            return self.remember(v) as u32;
        }
        let v = self.u32b_plain();
        self.remember(v as u64) as u32
    }
    fn u32b_plain(&mut self) -> u32 {
        const B: [u32; 12] = [0, 1, 0x40, 0x80, 0xc0, 0xff, 0xffff, 0x10000, 0x7fffffff, 0x80000000, 0xfffffffe, 0xffffffff];
        if self.chance(1, 2) {
            *self.pick(&B)
        } else {
            self.next() as u32
        }
    }
    pub fn u64b(&mut self) -> u64 {
        if let Some(v) = self.again(u64::MAX) {
            return v;
        }
        if let Some(v) = self.dict_int(u64::MAX) {
            return self.remember(v);
        }
        let v = self.u64b_plain();
        self.remember(v)
    }
    fn u64b_plain(&mut self) -> u64 {
        const B: [u64; 8] = [0, 1, 0xff, 0xffffffff, 0x100000000, 0x7fffffffffffffff, 0x8000000000000000, u64::MAX];
        if self.chance(1, 2) {
            *self.pick(&B)
        } else {
            self.next()
        }
    }
}
