//! G-wire: hostile octet strings. Valid encodings come from the *reference* encoder and are then
//! mutated at the fields that matter; plus exhaustive small spaces and random octets behind a
//! plausible header.

use super::rng::Rng;
use super::val;
use crate::spec::encode;
use crate::spec::model::*;
use crate::spec::tables::*;

/// A valid encoding with the positions of its fields.
#[derive(Clone, Debug)]
pub struct Wire {
    pub bytes: Vec<u8>,
    pub control: bool,
    /// offsets of AVP records (control only)
    pub avps: Vec<usize>,
    /// offset of the message Length field, if any
    pub length_at: Option<usize>,
    /// offset of the offset-size field (data only)
    pub offset_at: Option<usize>,
}

pub fn wire_control(c: &SControl) -> Wire {
    let bytes = encode::message(&SMsg::Control(c.clone())).expect("encodable");
    let mut avps = Vec::new();
    let mut at = 12;
    for a in c.avps.iter() {
        avps.push(at);
        at += 6 + encode::payload(a).len();
    }
    Wire { bytes, control: true, avps, length_at: Some(2), offset_at: None }
}

pub fn wire_data(d: &SData) -> Wire {
    let bytes = encode::message(&SMsg::Data(d.clone())).expect("encodable");
    let mut at = 2;
    let length_at = if d.length.is_some() {
        at += 2;
        Some(2)
    } else {
        None
    };
    at += 4;
    if d.nsnr.is_some() {
        at += 4;
    }
    let offset_at = if d.offset.is_some() { Some(at) } else { None };
    Wire { bytes, control: false, avps: vec![], length_at, offset_at }
}

fn put16(b: &mut [u8], at: usize, x: u16) {
    if at + 1 < b.len() {
        b[at] = (x >> 8) as u8;
        b[at + 1] = x as u8;
    }
}
fn get16(b: &[u8], at: usize) -> u16 {
    if at + 1 < b.len() {
        ((b[at] as u16) << 8) | b[at + 1] as u16
    } else {
        0
    }
}

fn set_avp_len(b: &mut [u8], at: usize, len: u16) {
    if at + 1 < b.len() {
        b[at] = (b[at] & 0x3f) | (((len >> 8) & 3) as u8) << 6;
        b[at + 1] = len as u8;
    }
}
fn get_avp_len(b: &[u8], at: usize) -> u16 {
    if at + 1 < b.len() {
        (((b[at] >> 6) as u16) << 8) | b[at + 1] as u16
    } else {
        0
    }
}

const BAD_UTF8: [&[u8]; 10] = [&[0xff], &[0xc0, 0x80], &[0xc1, 0xbf], &[0xe0, 0x80, 0x80], &[0xed, 0xa0, 0x80], &[0xf4, 0x90, 0x80, 0x80], &[0xf5, 0x80, 0x80, 0x80], &[0xe2, 0x82],
    // CESU-8 / Java "modified UTF-8": a surrogate pair, and an overlong NUL
    &[0xed, 0xa0, 0xbd, 0xed, 0xb8, 0x80], &[0x61, 0xc0, 0x80, 0x62]];

pub const N_MUTATIONS: usize = 20;
pub const MUTATION_NAMES: [&str; N_MUTATIONS] = [
    "msg_length", "avp_length", "avp_flagbits", "avp_vendor", "avp_attr", "payload_flip", "payload_utf8", "enum_code", "flag_bit", "version",
    "truncate", "truncate_field", "append", "bitflip", "offset_size", "drop_avp_tail", "dup_avp", "reserved_octets", "len_vs_input", "grow_payload",
];

/// Apply mutation number `m` to `w.bytes`. Returns false when it does not apply to this wire.
pub fn mutate(r: &mut Rng, w: &mut Wire, m: usize) -> bool {
    let n = w.bytes.len();
    match m {
        0 => {
            // message Length
            let at = match w.length_at {
                Some(a) => a,
                None => return false,
            };
            let truth = get16(&w.bytes, at);
            let v = match r.below(8) {
                0 => r.range(0, 13) as u16,
                1 => truth.wrapping_sub(1),
                2 => truth.wrapping_add(1),
                3 => 0xffff,
                4 => truth.wrapping_sub(r.range(1, 12) as u16),
                5 => truth.wrapping_add(r.range(1, 12) as u16),
                6 => r.next() as u16,
                _ => r.range(0, n as u64 + 2) as u16,
            };
            put16(&mut w.bytes, at, v);
        }
        1 => {
            if w.avps.is_empty() {
                return false;
            }
            let at = *r.pick(&w.avps);
            let truth = get_avp_len(&w.bytes, at);
            let v = match r.below(7) {
                0 => r.range(0, 7) as u16,
                1 => truth.wrapping_sub(1) & 0x3ff,
                2 => (truth + 1) & 0x3ff,
                3 => 1023,
                4 => r.range(0, 1023) as u16,
                5 => truth.wrapping_sub(r.range(1, 6) as u16) & 0x3ff,
                _ => (truth + r.range(1, 40) as u16) & 0x3ff,
            };
            set_avp_len(&mut w.bytes, at, v);
        }
        2 => {
            if w.avps.is_empty() {
                return false;
            }
            let at = *r.pick(&w.avps);
            let bit = r.below(6) as u8; // M, H, reserved x4
            w.bytes[at] ^= 1 << bit;
        }
        3 => {
            if w.avps.is_empty() {
                return false;
            }
            let at = *r.pick(&w.avps);
            let v = match r.below(3) {
                0 => r.range(1, 3) as u16,
                // enterprise numbers seen in the field (Cisco, Microsoft, 3Com, Ascend, Juniper, 3GPP, BBF)
                1 => *r.pick(&[9u16, 311, 43, 529, 2636, 10415, 3561]),
                _ => r.u16b().max(1),
            };
            put16(&mut w.bytes, at + 2, v);
            if r.bool() {
                w.bytes[at] &= !0x01; // vendor AVPs are usually not mandatory
            }
        }
        4 => {
            if w.avps.is_empty() {
                return false;
            }
            let at = *r.pick(&w.avps);
            let v = match r.below(5) {
                0 => 20,
                1 => 40,
                2 => r.range(0, 41) as u16,
                3 => 0xffff,
                _ => r.u16b(),
            };
            put16(&mut w.bytes, at + 4, v);
        }
        5 => {
            if n <= 12 {
                return false;
            }
            let at = r.range(12.min(n as u64 - 1), n as u64 - 1) as usize;
            w.bytes[at] ^= 1 << r.below(8);
        }
        6 => {
            if w.avps.is_empty() {
                return false;
            }
            let at = *r.pick(&w.avps);
            let len = get_avp_len(&w.bytes, at) as usize;
            if len <= 6 || at + len > n {
                return false;
            }
            let pl = len - 6;
            if r.chance(1, 4) {
                // a long run of one octet class (continuation octets, lead octets, ...)
                let class = *r.pick(&[0x80u8, 0xbf, 0xa0, 0xc2, 0xe0, 0xf0, 0xf4, 0xff, 0xc0]);
                let run = (r.range(1, 70) as usize).min(pl);
                let start = at + 6 + r.below((pl - run + 1) as u64) as usize;
                for x in w.bytes[start..start + run].iter_mut() {
                    *x = class;
                }
                return true;
            }
            let bad = *r.pick(&BAD_UTF8);
            // write at the tail or a random place inside the payload
            let k = bad.len().min(pl);
            let pos = match r.below(3) {
                0 => at + len - k,                               // tail
                1 => at + 6 + r.below((pl - k + 1).min(8) as u64) as usize, // within the first octets
                _ => at + 6 + r.below((pl - k + 1) as u64) as usize,
            };
            w.bytes[pos..pos + k].copy_from_slice(&bad[..k]);
        }
        7 => {
            if w.avps.is_empty() {
                return false;
            }
            let at = *r.pick(&w.avps);
            let len = get_avp_len(&w.bytes, at) as usize;
            if len < 8 || at + len > n {
                return false;
            }
            let v = if r.bool() { r.range(0, 20) as u16 } else { r.u16b() };
            // first or second 16-bit word of the payload (second = error type of a result code)
            let off = if len >= 10 && r.bool() { 8 } else { 6 };
            put16(&mut w.bytes, at + off, v);
        }
        8 => {
            let bit = r.below(16);
            if bit < 8 {
                w.bytes[1] ^= 1 << bit;
            } else {
                w.bytes[0] ^= 1 << (bit - 8);
            }
        }
        9 => {
            w.bytes[1] = (w.bytes[1] & 0x0f) | ((r.below(16) as u8) << 4);
        }
        10 => {
            let k = r.below(n as u64 + 1) as usize;
            w.bytes.truncate(k);
        }
        11 => {
            // truncate at a field boundary +/- 1
            let mut marks: Vec<usize> = vec![2, 4, 6, 8, 10, 12];
            for a in w.avps.iter() {
                marks.push(*a);
                marks.push(*a + 2);
                marks.push(*a + 6);
            }
            let m = *r.pick(&marks);
            let k = (m as i64 + r.range(0, 2) as i64 - 1).clamp(0, n as i64) as usize;
            w.bytes.truncate(k);
        }
        12 => {
            let k = r.range(1, 64) as usize;
            let s = r.bytes(k);
            w.bytes.extend_from_slice(&s);
        }
        13 => {
            let at = r.below(n as u64) as usize;
            w.bytes[at] ^= 1 << r.below(8);
        }
        14 => {
            let at = match w.offset_at {
                Some(a) => a,
                None => return false,
            };
            let rem = n - at - 2;
            let v = match r.below(6) {
                0 => 0,
                1 => rem.saturating_sub(1) as u16,
                2 => rem as u16,
                3 => (rem + 1) as u16,
                4 => 0xffff,
                _ => r.u16b(),
            };
            put16(&mut w.bytes, at, v);
        }
        15 => {
            // cut inside the last AVP but keep the message Length consistent with the new size
            if w.avps.is_empty() {
                return false;
            }
            let at = *w.avps.last().unwrap();
            let k = r.range(at as u64, n as u64 - 1) as usize;
            w.bytes.truncate(k);
            put16(&mut w.bytes, 2, k as u16);
        }
        16 => {
            // duplicate an AVP record at the end (Length updated): e.g. a second Message Type
            if w.avps.is_empty() {
                return false;
            }
            let at = *r.pick(&w.avps);
            let len = get_avp_len(&w.bytes, at) as usize;
            if at + len > n || n + len > 65535 {
                return false;
            }
            let rec = w.bytes[at..at + len].to_vec();
            w.avps.push(n);
            w.bytes.extend_from_slice(&rec);
            let total = w.bytes.len() as u16;
            put16(&mut w.bytes, 2, total);
        }
        17 => {
            // set reserved octets of kinds that have them, or any payload octet
            if w.avps.is_empty() {
                return false;
            }
            let at = *r.pick(&w.avps);
            let len = get_avp_len(&w.bytes, at) as usize;
            if len < 8 || at + len > n {
                return false;
            }
            w.bytes[at + 6] = r.u8();
            w.bytes[at + 7] ^= r.u8() & (r.bool() as u8 * 0xff);
        }
        18 => {
            // Length exactly input size +/- small, with input truncated or extended accordingly
            let at = match w.length_at {
                Some(a) => a,
                None => return false,
            };
            let truth = get16(&w.bytes, at) as usize;
            if r.bool() {
                let cut = r.range(1, 8) as usize;
                w.bytes.truncate(n.saturating_sub(cut));
            } else {
                let s = r.bytes_range(1, 8);
                w.bytes.extend_from_slice(&s);
                let _ = truth;
            }
        }
        19 => {
            // grow an AVP's payload by surplus octets (Length and AVP length updated)
            if w.avps.is_empty() {
                return false;
            }
            let i = r.below(w.avps.len() as u64) as usize;
            let at = w.avps[i];
            let len = get_avp_len(&w.bytes, at) as usize;
            let extra = r.range(1, 9) as usize;
            if at + len > n || len + extra > 1023 || n + extra > 65535 {
                return false;
            }
            let s = r.bytes(extra);
            let tail = w.bytes.split_off(at + len);
            w.bytes.extend_from_slice(&s);
            w.bytes.extend_from_slice(&tail);
            set_avp_len(&mut w.bytes, at, (len + extra) as u16);
            for a in w.avps.iter_mut().skip(i + 1) {
                *a += extra;
            }
            let total = w.bytes.len() as u16;
            put16(&mut w.bytes, 2, total);
        }
        _ => return false,
    }
    true
}

/// One hostile input. Returns the octets and the names of the mutations applied (for buckets).
pub fn hostile(r: &mut Rng) -> (Vec<u8>, Vec<&'static str>) {
    let mode = r.below(20);
    match mode {
        0 => (r.bytes_range(0, 40), vec!["random"]),
        1 => {
            // random octets behind a plausible header
            let mut b = if r.bool() { vec![0x13, 0x20] } else { vec![(r.below(256) as u8) & 0xfe, 0x20] };
            let k = r.range(0, 80) as usize;
            b.extend_from_slice(&r.bytes(k));
            if b[0] & 1 == 1 && b.len() >= 4 && r.bool() {
                let l = b.len() as u16;
                put16(&mut b, 2, l);
            }
            (b, vec!["random_header"])
        }
        2 => {
            // control header + random AVP-shaped records
            let mut b = vec![0x13, 0x20, 0, 0];
            b.extend_from_slice(&r.bytes(8));
            b.extend_from_slice(&avp_record(r, 0, false));
            for _ in 0..r.below(5) {
                let attr = if r.chance(3, 4) { r.range(0, 41) as u16 } else { r.u16b() };
                let hidden = r.chance(1, 8);
                b.extend_from_slice(&avp_record(r, attr, hidden));
            }
            let l = b.len() as u16;
            put16(&mut b, 2, l);
            (b, vec!["shaped"])
        }
        3 => {
            // splice of two valid messages
            let a = valid_message(r);
            let c = valid_message(r);
            let cut_a = r.below(a.bytes.len() as u64 + 1) as usize;
            let cut_c = r.below(c.bytes.len() as u64 + 1) as usize;
            let mut b = a.bytes[..cut_a].to_vec();
            b.extend_from_slice(&c.bytes[cut_c..]);
            (b, vec!["splice"])
        }
        4 => (valid_message(r).bytes, vec!["valid"]),
        5 if r.chance(1, 2) => {
            // a control message dressed like a data message: O bit set and an offset-size field
            // (plus that much padding) squeezed in behind the 12-octet header, Length adjusted
            let c = val::control(r, 4, 30);
            let mut b = wire_control(&c).bytes;
            let pad = r.below(4) as usize;
            let mut ins = vec![0u8, pad as u8];
            ins.extend_from_slice(&r.bytes(pad));
            let tail = b.split_off(12);
            b.extend_from_slice(&ins);
            b.extend_from_slice(&tail);
            b[0] |= 0x40;
            let total = b.len() as u16;
            put16(&mut b, 2, total);
            (b, vec!["control_with_offset_field"])
        }
        _ => {
            let mut w = valid_message(r);
            let k = 1 + r.below(3) as usize;
            let mut names = Vec::new();
            for _ in 0..k {
                for _try in 0..4 {
                    let m = r.below(N_MUTATIONS as u64) as usize;
                    if w.bytes.is_empty() {
                        break;
                    }
                    if w.bytes.len() < 2 && m != 12 {
                        continue;
                    }
                    if mutate(r, &mut w, m) {
                        names.push(MUTATION_NAMES[m]);
                        fix_layout(&mut w);
                        break;
                    }
                }
            }
            (w.bytes, names)
        }
    }
}

/// Drop field positions that a mutation moved outside the octets.
pub fn fix_layout(w: &mut Wire) {
    let n = w.bytes.len();
    w.avps.retain(|a| *a + 6 <= n);
    if let Some(a) = w.length_at {
        if a + 2 > n {
            w.length_at = None;
        }
    }
    if let Some(a) = w.offset_at {
        if a + 2 > n {
            w.offset_at = None;
        }
    }
}

pub fn valid_message(r: &mut Rng) -> Wire {
    if r.chance(2, 3) {
        let maxp = if r.chance(1, 6) { 1017 } else { 60 };
        let c = val::control(r, 6, maxp);
        wire_control(&c)
    } else {
        let d = val::data(r, None, 48);
        wire_data(&d)
    }
}

/// An AVP-shaped record for `attr` with a payload of plausible size (often valid).
pub fn avp_record(r: &mut Rng, attr: u16, hidden: bool) -> Vec<u8> {
    let payload = match format_of(attr) {
        Some(_) if !hidden && r.chance(3, 4) => encode::payload(&val::avp_of(r, attr, 40)),
        _ => r.bytes_range(0, 40),
    };
    raw_record(attr, hidden, 0, &payload, true)
}

pub fn raw_record(attr: u16, hidden: bool, vendor: u16, payload: &[u8], mandatory: bool) -> Vec<u8> {
    let len = 6 + payload.len();
    let mut v = Vec::with_capacity(len);
    v.push(((((len >> 8) & 3) as u8) << 6) | (mandatory as u8) | ((hidden as u8) << 1));
    v.push(len as u8);
    v.push((vendor >> 8) as u8);
    v.push(vendor as u8);
    v.push((attr >> 8) as u8);
    v.push(attr as u8);
    v.extend_from_slice(payload);
    v
}

/// Control message wrapping the given AVP-region octets (Length consistent).
pub fn control_around(body: &[u8], tunnel: u16, session: u16, ns: u16, nr: u16) -> Vec<u8> {
    let total = 12 + body.len();
    let mut v = Vec::with_capacity(total);
    v.extend_from_slice(&[0x13, 0x20, (total >> 8) as u8, total as u8]);
    for x in [tunnel, session, ns, nr] {
        v.push((x >> 8) as u8);
        v.push(x as u8);
    }
    v.extend_from_slice(body);
    v
}

/// The Message Type record (SCCRQ) used as a valid first AVP.
pub fn message_type_record(code: u16) -> Vec<u8> {
    raw_record(0, false, 0, &[(code >> 8) as u8, code as u8], true)
}

/// A valid payload of exactly the minimum size for an attribute (random content, valid codes).
pub fn valid_payload(r: &mut Rng, attr: u16, len: usize) -> Vec<u8> {
    let mut p = r.bytes(len);
    match format_of(attr) {
        Some(Fmt::Code16) if len >= 2 => {
            let c = if attr == 0 { r.pick(&MESSAGE_TYPES).0 } else { r.pick(&PROXY_AUTHEN_TYPES).0 };
            p[0] = (c >> 8) as u8;
            p[1] = c as u8;
        }
        Some(Fmt::Result) => {
            if len >= 4 {
                p[2] = 0;
                p[3] = r.below(9) as u8;
            }
            for x in p.iter_mut().skip(4) {
                *x = b'a' + (*x % 26);
            }
        }
        Some(Fmt::VarStr) => {
            for x in p.iter_mut() {
                *x = b'a' + (*x % 26);
            }
        }
        Some(Fmt::Q931) => {
            for x in p.iter_mut().skip(3) {
                *x = b'a' + (*x % 26);
            }
        }
        _ => {}
    }
    p
}

/// Corpus of one valid control message per AVP kind (+ hidden) and data messages for all 16
/// flag combinations: used for every-truncation-point and every-bit-flip sweeps.
pub fn corpus(r: &mut Rng) -> Vec<Wire> {
    let mut out = Vec::new();
    for k in 0..val::KINDS {
        let a = val::avp_kind(r, k, 12);
        let c = SControl { length: 0, tunnel: 1, session: 2, ns: 3, nr: 4, avps: vec![val::avp_of(r, 0, 8), a] };
        out.push(wire_control(&c));
    }
    out.push(wire_control(&SControl { length: 0, tunnel: 1, session: 2, ns: 3, nr: 4, avps: vec![] }));
    for f in 0..16u8 {
        out.push(wire_data(&val::data(r, Some(f), 6)));
    }
    out
}

/// Inputs at the top of the 16-bit size fields, with the octets they announce really present:
/// things a generator of "small" cases never builds and an encoder never emits.
pub enum Big {
    Msg(Vec<u8>),
    Avps(Vec<u8>),
}

fn min_record(r: &mut Rng) -> Vec<u8> {
    match r.below(4) {
        0 => raw_record(39, false, 0, &[], true),                           // 6 octets
        1 => raw_record(9, false, 0, &r.bytes(2), true),                    // 8 octets
        2 => raw_record(7, false, 0, &r.bytes(1), true),                    // 7 octets
        _ => raw_record(39, false, 0, &[], r.bool()),
    }
}

fn tail_record(r: &mut Rng) -> Vec<u8> {
    match r.below(7) {
        0 => message_type_record(*r.pick(&[5u16, 13, 17, 0])),              // unknown message type
        1 => raw_record(*r.pick(&[20u16, 40, 65535]), false, 0, &r.bytes_range(0, 8), true),
        2 => raw_record(29, false, 0, &[0, 6], true),                        // bad proxy authen type
        3 => raw_record(1, false, 0, &[0, 1, 0, 9], true),                   // bad error type
        4 => {
            // length field claiming more than is there
            let mut rec = raw_record(7, false, 0, &r.bytes_range(1, 10), true);
            let claim = rec.len() + r.range(1, 90) as usize;
            rec[0] = (rec[0] & 0x3f) | (((claim >> 8) & 3) as u8) << 6;
            rec[1] = claim as u8;
            rec
        }
        5 => raw_record(r.range(0, 39) as u16, r.bool(), *r.pick(&[9u16, 311, 1]), &r.bytes_range(0, 8), r.bool()),
        _ => encode::avp(&val::any_avp(r, 40)).unwrap(),
    }
}

pub fn big_input(r: &mut Rng) -> (Big, &'static str) {
    match r.below(9) {
        7 | 8 => {
            // control message with a chosen *number* of undecodable records (around 2^8, 2^9,
            // 2^10, 2^12, 2^13) between valid ones
            let n = *r.pick(&[254usize, 255, 256, 257, 258, 511, 512, 513, 1_023, 1_024, 1_025, 4_096, 8_192, 9_000]);
            let mut body = message_type_record(1);
            let bad_attr = *r.pick(&[100u16, 20, 40, 65535]);
            for i in 0..n {
                if body.len() + 16 > 65_535 - 12 {
                    break;
                }
                body.extend_from_slice(&raw_record(bad_attr, false, 0, &[], true));
                if i % 97 == 5 && body.len() + 16 <= 65_535 - 12 {
                    body.extend_from_slice(&[0x01, 0x06, 0, 0, 0, 39]);
                }
            }
            (Big::Msg(control_around(&body, 1, 2, 3, 4)), "control_many_faults")
        }
        0 | 1 => {
            // data message, offset size near 0xffff with the pad present (or one octet short)
            let has_l = r.chance(2, 3);
            let has_s = r.bool();
            let prio = r.bool();
            let osz = if r.chance(3, 4) { r.range(65_500, 65_535) as usize } else { r.range(60_000, 65_535) as usize };
            let header = 2 + 4 + if has_l { 2 } else { 0 } + if has_s { 4 } else { 0 } + 2;
            let w: u16 = (2 << 4) | if has_l { BIT_L } else { 0 } | if has_s { BIT_S } else { 0 } | BIT_O | if prio { BIT_P } else { 0 };
            let mut b = vec![(w >> 8) as u8, w as u8];
            if has_l {
                let l: u16 = match r.below(5) {
                    0 => header as u16,
                    1 => (header + r.range(1, 16) as usize) as u16,
                    2 => ((header + osz) & 0xffff) as u16,
                    3 => ((header + osz + 4) & 0xffff) as u16,
                    _ => r.u16b(),
                };
                b.extend_from_slice(&l.to_be_bytes());
            }
            b.extend_from_slice(&r.bytes(4));
            if has_s {
                b.extend_from_slice(&r.bytes(4));
            }
            b.extend_from_slice(&(osz as u16).to_be_bytes());
            let present = match r.below(4) {
                0 => osz.saturating_sub(1),
                1 => osz,
                _ => osz + r.range(1, 12) as usize,
            };
            let pad = r.bytes(present);
            b.extend_from_slice(&pad);
            (Big::Msg(b), "data_big_offset")
        }
        2 => {
            // bare AVP list beyond 64 KiB made of maximal records, then one more record
            let n = r.range(64, 70) as usize;
            let mut b = Vec::with_capacity(n * 1023 + 128);
            for _ in 0..n {
                let attr = *r.pick(&[7u16, 11, 26, 30, 37]);
                b.extend_from_slice(&raw_record(attr, false, 0, &vec![0x5a; 1017], true));
            }
            if r.bool() {
                b.extend_from_slice(&raw_record(7, false, 0, &r.bytes_range(1, 80), true));
            }
            b.extend_from_slice(&tail_record(r));
            (Big::Avps(b), "avps_big_records")
        }
        3 => {
            // bare AVP list of minimal records around the 8191 / 10922 counts, then a tail
            let n = *r.pick(&[8_189usize, 8_190, 8_191, 8_192, 8_193, 10_919, 10_920, 10_921, 10_922, 10_923, 10_930, 12_000]);
            let mut b = Vec::with_capacity(n * 8 + 64);
            let six = r.bool();
            for _ in 0..n {
                if six {
                    b.extend_from_slice(&[0x01, 0x06, 0, 0, 0, 39]);
                } else {
                    b.extend_from_slice(&min_record(r));
                }
            }
            b.extend_from_slice(&tail_record(r));
            if r.bool() {
                b.extend_from_slice(&tail_record(r));
            }
            (Big::Avps(b), "avps_many_records")
        }
        4 | 5 => {
            // control message close to 65535 octets filled with minimal records, faults near the end
            let mut body = message_type_record(1);
            let target = 65_535 - 12 - r.range(0, 40) as usize;
            let mut count = 1;
            while body.len() + 8 <= target.saturating_sub(60) {
                body.extend_from_slice(&[0x01, 0x06, 0, 0, 0, 39]);
                count += 1;
            }
            let _ = count;
            for _ in 0..r.range(1, 3) {
                let t = tail_record(r);
                if body.len() + t.len() <= 65_535 - 12 {
                    body.extend_from_slice(&t);
                }
            }
            (Big::Msg(control_around(&body, r.u16b(), r.u16b(), r.u16b(), r.u16b())), "control_many_records")
        }
        _ => {
            // control message with 63 maximal records
            let mut body = message_type_record(1);
            for _ in 0..63 {
                body.extend_from_slice(&raw_record(7, false, 0, &vec![0x41; 1017], true));
            }
            let t = tail_record(r);
            if body.len() + t.len() <= 65_535 - 12 {
                body.extend_from_slice(&t);
            }
            (Big::Msg(control_around(&body, 1, 2, 3, 4)), "control_big_records")
        }
    }
}

pub const VENDOR_DICT: [u16; 8] = [9, 311, 43, 529, 2636, 10415, 3561, 1];
pub const VENDOR_GRID: u64 = 8 * 256 * 7 * 2 * 2 * 2;

/// The space of small vendor-specific AVPs, enumerated: enterprise number (dictionary) x
/// attribute type 0..=255 x payload length {0,1,2,3,4,6,8} x M x H x "length field overshoots".
/// Vendor AVPs are the protocol's extension point, so special-casing creeps in here first.
pub fn vendor_grid_case(r: &mut Rng, idx: u64) -> Vec<u8> {
    let mut x = idx;
    let vendor = VENDOR_DICT[(x % 8) as usize];
    x /= 8;
    let attr = (x % 256) as u16;
    x /= 256;
    let plen = [0usize, 1, 2, 3, 4, 6, 8][(x % 7) as usize];
    x /= 7;
    let mandatory = x % 2 == 1;
    x /= 2;
    let hidden = x % 2 == 1;
    x /= 2;
    let overshoot = x % 2 == 1;
    let mut body = message_type_record(MESSAGE_TYPES[(idx % 14) as usize].0);
    let mut rec = raw_record(attr, hidden, vendor, &r.bytes(plen), mandatory);
    if overshoot {
        // the record is the last one and claims more octets than the message holds
        let claim = rec.len() + 1 + (idx % 40) as usize;
        rec[0] = (rec[0] & 0x3f) | (((claim >> 8) & 3) as u8) << 6;
        rec[1] = claim as u8;
        body.extend_from_slice(&rec);
    } else {
        body.extend_from_slice(&rec);
        if idx % 3 == 0 {
            body.extend_from_slice(&raw_record(9, false, 0, &[0x12, 0x34], true));
        }
    }
    control_around(&body, 1, 2, 3, 4)
}


/// Text-fault grid: a text AVP (or the text tail of Result Code / Q.931 Cause Code) of a chosen
/// length made of ASCII, with one ill-formed UTF-8 sequence (or none) overwriting the octets at a
/// chosen distance from the start or from the end. Scanners that treat head, body and tail of a
/// long text differently (word-at-a-time fast paths) meet every combination.
pub const TEXT_KINDS: [u16; 6] = [8, 21, 22, 23, 1, 12];
pub const TEXT_LENS: [usize; 15] = [9, 16, 31, 63, 64, 65, 80, 128, 255, 400, 511, 512, 513, 600, 1013];
pub const TEXT_BAD: [&[u8]; 9] = [&[], &[0xff], &[0xc0, 0x80], &[0xc1, 0xbf], &[0xe0, 0x80, 0x80], &[0xed, 0xa0, 0xbd], &[0xf4, 0x90, 0x80, 0x80], &[0x80], &[0xe2, 0x82]];
/// positions 0..=8 from the start, 0..=8 from the end, the middle, and p-3..=p+1 for every power
/// of two p = 16..512 (where a scanner working in blocks or words changes gear)
pub const TEXT_POS: usize = 19 + 30;
pub const TEXT_GRID: u64 = (6 * 15 * 9 * TEXT_POS) as u64;

/// (attribute, text length, index into TEXT_BAD, position selector) of grid point `idx`
pub fn text_grid_dims(idx: u64) -> (u16, usize, usize, usize) {
    let attr = TEXT_KINDS[(idx % 6) as usize];
    let len = TEXT_LENS[((idx / 6) % 15) as usize];
    let bad = ((idx / 90) % 9) as usize;
    let pos_sel = ((idx / 810) % TEXT_POS as u64) as usize;
    (attr, len, bad, pos_sel)
}

pub fn text_grid_case(r: &mut Rng, idx: u64) -> Vec<u8> {
    let (attr, len, bad_i, pos_sel) = text_grid_dims(idx);
    let bad = TEXT_BAD[bad_i];
    let mut text: Vec<u8> = (0..len).map(|_| b'a' + r.below(26) as u8).collect();
    let at = match pos_sel {
        0..=8 => pos_sel,
        9..=17 => len.saturating_sub(bad.len() + (pos_sel - 9)),
        18 => len / 2,
        _ => {
            let k = pos_sel - 19;
            (16usize << (k / 5)) + (k % 5) - 3
        }
    };
    let at = at.min(len.saturating_sub(bad.len()));
    text[at..at + bad.len()].copy_from_slice(bad);
    let payload = match attr {
        1 => {
            let mut p = vec![0, 1, 0, 6];
            p.extend_from_slice(&text);
            p
        }
        12 => {
            let mut p = vec![0, 16, 3];
            p.extend_from_slice(&text);
            p
        }
        _ => text,
    };
    let mut body = message_type_record(1);
    body.extend_from_slice(&raw_record(attr, false, 0, &payload, true));
    control_around(&body, 1, 2, 3, 4)
}

/// Lead grid: every attribute kind x a small leading 16-bit value (0..=20, where result codes,
/// error types, message types and proxy types live) x every payload length 0..=10. Decoders that
/// look at a leading code before they know how much payload there is meet every combination.
pub const LEAD_GRID: u64 = 40 * 21 * 11;
pub fn lead_grid_case(r: &mut Rng, idx: u64) -> Vec<u8> {
    let k = (idx % 40) as usize;
    let lead = ((idx / 40) % 21) as u16;
    let len = ((idx / 840) % 11) as usize;
    let attr = if k < 39 { ATTRS[k].0 } else { 20 };
    let mut payload = valid_payload(r, attr, len);
    if len >= 2 {
        payload[0] = (lead >> 8) as u8;
        payload[1] = lead as u8;
    } else if len == 1 {
        payload[0] = lead as u8;
    }
    let mut body = message_type_record(MESSAGE_TYPES[(idx % 14) as usize].0);
    body.extend_from_slice(&raw_record(attr, false, 0, &payload, true));
    if idx % 4 == 0 {
        body.extend_from_slice(&raw_record(9, false, 0, &[0x12, 0x34], true));
    }
    control_around(&body, 1, 2, 3, 4)
}

/// Dictionary grid (G-dict): as `vendor_grid`, but the enterprise numbers, attribute types and
/// payload lengths are extended by the integer literals found in the source under test (and their
/// neighbours), so that a table keyed on (vendor, attribute, length) is met whatever constants it
/// uses. Empty when no dictionary was supplied.
pub struct DictGrid {
    pub vendors: Vec<u16>,
    pub attrs: Vec<u16>,
    pub lens: Vec<usize>,
}

pub const DICT_GRID_CAP: u64 = 4_000_000;

pub fn dict_grid() -> &'static DictGrid {
    static G: std::sync::OnceLock<DictGrid> = std::sync::OnceLock::new();
    G.get_or_init(|| {
        let lits = super::dict::ints_upto(0xffff);
        let mut vendors: Vec<u16> = VENDOR_DICT.to_vec();
        vendors.extend(0..=15u16);
        vendors.extend(lits.iter().map(|x| *x as u16));
        vendors.sort_unstable();
        vendors.dedup();
        let mut attrs: Vec<u16> = (0..=255u16).collect();
        attrs.extend(lits.iter().map(|x| *x as u16));
        attrs.sort_unstable();
        attrs.dedup();
        let mut lens: Vec<usize> = (0..=41usize).collect();
        lens.extend(super::dict::ints_upto(1017).iter().map(|x| *x as usize));
        lens.sort_unstable();
        lens.dedup();
        DictGrid { vendors, attrs, lens }
    })
}

fn dict_grid_space() -> u64 {
    if super::dict::get().ints.is_empty() {
        return 0;
    }
    let g = dict_grid();
    (g.vendors.len() as u64).saturating_mul(g.attrs.len() as u64).saturating_mul(g.lens.len() as u64).saturating_mul(4)
}

/// Number of cases: the whole grid when it has at most `DICT_GRID_CAP` points, else that many
/// random points of it.
pub fn dict_grid_count() -> u64 {
    dict_grid_space().min(DICT_GRID_CAP)
}

/// The stream enumerates the whole grid (native tiers, grid within the cap).
pub fn dict_grid_exhaustive(native: bool) -> bool {
    native && dict_grid_space() > 0 && dict_grid_space() <= DICT_GRID_CAP
}

pub fn dict_grid_case(r: &mut Rng, idx: u64) -> Vec<u8> {
    let g = dict_grid();
    let space = dict_grid_space().max(1);
    let mut x = if space > DICT_GRID_CAP { r.below(space) } else { idx % space };
    let vendor = g.vendors[(x % g.vendors.len() as u64) as usize];
    x /= g.vendors.len() as u64;
    let attr = g.attrs[(x % g.attrs.len() as u64) as usize];
    x /= g.attrs.len() as u64;
    let plen = g.lens[(x % g.lens.len() as u64) as usize];
    x /= g.lens.len() as u64;
    let mandatory = x % 2 == 1;
    let hidden = (x / 2) % 2 == 1;
    let mut body = message_type_record(MESSAGE_TYPES[(idx % 14) as usize].0);
    // a well-formed payload of the attribute's own kind when there is one (vendor 0), else octets
    let payload = if vendor == 0 && !hidden && format_of(attr).is_some() { valid_payload(r, attr, plen) } else { r.bytes(plen) };
    body.extend_from_slice(&raw_record(attr, hidden, vendor, &payload, mandatory));
    if idx % 3 == 0 {
        body.extend_from_slice(&raw_record(9, false, 0, &[0x12, 0x34], true));
    }
    control_around(&body, 1, 2, 3, 4)
}
