//! G-val: structured values (reference model) for all AVP kinds and both message kinds,
//! boundary-biased.

use super::rng::Rng;
use crate::spec::encode;
use crate::spec::model::*;
use crate::spec::tables::*;

pub const MAX_PAYLOAD: usize = 1017;

/// Lengths that straddle interesting boundaries: 249/250 put the AVP length at 255/256 (needs the
/// high length bits), 1017 is the largest payload.
const LEN_BIAS: [usize; 14] = [1, 2, 3, 4, 15, 16, 17, 26, 249, 250, 251, 505, 506, 1017];

pub fn var_len(r: &mut Rng, max: usize) -> usize {
    let max = max.max(1);
    if let Some(v) = r.dict_int(max as u64) {
        if v >= 1 {
            return v as usize;
        }
    }
    let l = match r.below(10) {
        0..=3 => *r.pick(&LEN_BIAS),
        4..=7 => r.range(1, 40) as usize,
        8 => r.range(1, 300) as usize,
        _ => r.range(1, max as u64) as usize,
    };
    l.clamp(1, max)
}

const SCALARS: [u32; 16] = [
    0x00, 0x01, 0x41, 0x7f, 0x80, 0x7ff, 0x800, 0xfff, 0xd7ff, 0xe000, 0xfffd, 0xffff, 0x10000, 0x3ffff, 0x10fffe, 0x10ffff,
];

/// UTF-8 string of exactly `len` octets (len >= 0), mixing 1-4 octet scalars.
pub fn utf8_exact(r: &mut Rng, len: usize) -> String {
    if len >= 2 && !super::dict::get().strs.is_empty() && (if r.dict_heavy() { r.chance(1, 3) } else { r.chance(1, 24) }) {
        if let Some(t) = utf8_with_literal(r, len) {
            return t;
        }
    }
    if len > 0 && r.chance(1, 8) {
        return utf8_edgy(r, len);
    }
    utf8_plain(r, len)
}

/// Text of exactly `len` octets around a string literal of the source under test (G-dict), in one
/// of the shapes that defeat a single-pass search-and-replace or a prefix/suffix test: the literal
/// itself, doubled, overlapping with itself (its first character once more in front, its last
/// once more behind), at the start, at the end or inside.
fn utf8_with_literal(r: &mut Rng, len: usize) -> Option<String> {
    let d = super::dict::get();
    let raw: &Vec<u8> = r.pick(&d.strs[..]);
    let lit = std::str::from_utf8(raw).ok()?.to_string();
    if lit.is_empty() {
        return None;
    }
    let first: String = lit.chars().take(1).collect();
    let last: String = lit.chars().rev().take(1).collect();
    let core = match r.below(6) {
        0 => lit.clone(),
        1 => format!("{}{}", lit, lit),
        2 => format!("{}{}", first, lit),
        3 => format!("{}{}", lit, last),
        4 => format!("{}{}{}", first, first, lit),
        _ => format!("{}{}{}", lit, first, lit),
    };
    if core.len() > len {
        return None;
    }
    let slack = len - core.len();
    let before = match r.below(3) {
        0 => 0,
        1 => slack,
        _ => r.below(slack as u64 + 1) as usize,
    };
    let mut t = utf8_plain(r, before);
    t.push_str(&core);
    t.push_str(&utf8_plain(r, slack - before));
    Some(t)
}

/// Text of exactly `len` octets with content a lenient peer might "clean up": trailing / leading
/// NULs (C strings), whitespace and line ends at either end, all-NUL, a byte-order mark.
fn utf8_edgy(r: &mut Rng, len: usize) -> String {
    let tails: [&str; 8] = ["\0", "\0\0", "\0\0\0", " ", "\t", "\r\n", "\n", "\u{7f}"];
    let heads: [&str; 5] = ["\0", " ", "\u{feff}", "\r\n", "\0\0"];
    match r.below(4) {
        0 => "\0".repeat(len),
        1 => {
            let t = *r.pick(&tails);
            if t.len() > len {
                return "\0".repeat(len);
            }
            let mut s = utf8_plain(r, len - t.len());
            s.push_str(t);
            s
        }
        2 => {
            let h = *r.pick(&heads);
            if h.len() > len {
                return " ".repeat(len);
            }
            let mut s = String::from(h);
            s.push_str(&utf8_plain(r, len - h.len()));
            s
        }
        _ => {
            let h = *r.pick(&heads);
            let t = *r.pick(&tails);
            if h.len() + t.len() > len {
                return "\0".repeat(len);
            }
            let mut s = String::from(h);
            s.push_str(&utf8_plain(r, len - h.len() - t.len()));
            s.push_str(t);
            s
        }
    }
}

/// Text as it occurs in the field for the AVP kinds that carry text: dialled numbers in the usual
/// notations, host and domain names, user names with realms, product strings, sentences; in
/// several letter cases and with the separators a "normalising" peer would be tempted to remove.
/// At most `max` octets (falls back to a short ASCII word when nothing fits).
pub fn realistic_text(r: &mut Rng, attr: u16, max: usize) -> String {
    let digits = |r: &mut Rng, n: usize| -> String { (0..n).map(|_| (b'0' + r.below(10) as u8) as char).collect() };
    let wordn = |r: &mut Rng, n: usize| -> String { (0..n).map(|_| (b'a' + r.below(26) as u8) as char).collect() };
    let word = |r: &mut Rng, lo: u64, hi: u64| -> String {
        let n = r.range(lo, hi) as usize;
        (0..n).map(|_| (b'a' + r.below(26) as u8) as char).collect()
    };
    let class = match attr {
        21 | 22 | 23 => 0,
        7 => 1,
        30 => 2,
        8 => 3,
        _ => r.below(5),
    };
    let class = if r.chance(1, 5) { r.below(5) } else { class };
    let mut t = match class {
        0 => {
            // E.164 / national numbers with separators
            let (a, b, c) = (digits(r, 3), digits(r, 3), digits(r, 4));
            match r.below(10) {
                0 => format!("{}-{}-{}", a, b, c),
                1 => format!("{}.{}.{}", a, b, c),
                2 => format!("+1-{}-{}-{}", a, b, c),
                3 => format!("+{}{}{}{}", r.range(1, 99), a, b, c),
                4 => format!("({}) {}-{}", a, b, c),
                5 => format!("00{}{}{}", a, b, c),
                6 => format!("{} {} {}", a, b, c),
                7 => format!("{}{}{}", a, b, c),
                8 => format!("{}-{}", b, c),
                _ => format!("tel:+{}-{}-{};ext={}", a, b, c, r.range(1, 999)),
            }
        }
        1 => {
            let (h, d) = (word(r, 2, 8), word(r, 3, 9));
            match r.below(8) {
                0 => format!("{}.{}.com", h, d),
                1 => format!("{}{}.{}.net.", h, r.range(1, 99), d),
                2 => format!("{}-{:02}", h.to_uppercase(), r.range(0, 99)),
                3 => format!("{}.{}.{}.{}", r.range(1, 223), r.below(256), r.below(256), r.range(1, 254)),
                4 => format!("[2001:db8::{:x}]", r.range(1, 0xffff)),
                5 => format!("{}.{}.Example.ORG", h, d),
                6 => "localhost".to_string(),
                _ => format!("xn--{}.{}", h, d),
            }
        }
        2 => {
            let (u, d) = (word(r, 1, 8), word(r, 3, 9));
            match r.below(7) {
                0 => format!("{}@{}.com", u, d),
                1 => format!("{}\\{}", d.to_uppercase(), u),
                2 => format!("{}@{}", u, d.to_uppercase()),
                3 => format!("{}/{}", d, u),
                4 => format!("{}%{}@{}.net", u, d, d),
                5 => format!("{}.{}@{}.example", u, u, d),
                _ => u.to_uppercase(),
            }
        }
        3 => {
            let w = word(r, 3, 9);
            match r.below(6) {
                0 => format!("{} Systems, Inc.", w),
                1 => format!("{}/{}.{}", w, r.below(20), r.below(100)),
                2 => format!("{} (r) v{}.{}.{}", w.to_uppercase(), r.below(10), r.below(10), r.below(100)),
                3 => "Cisco Systems, Inc.".to_string(),
                4 => "Microsoft".to_string(),
                _ => format!("{}-{}", w, digits(r, 4)),
            }
        }
        _ => {
            let w = word(r, 3, 9);
            match r.below(6) {
                0 => format!("No {} available.", w),
                1 => format!("Error: {} (code {})", w, r.below(100)),
                2 => format!("{}: {}\r\n", w, w),
                3 => format!("  {}  ", w),
                4 => format!("{} {}", w.to_uppercase(), w),
                _ => format!("{}={};{}={}", w, r.below(100), w, digits(r, 3)),
            }
        }
    };
    if t.len() > max {
        t = wordn(r, max.clamp(1, 4));
        t.truncate(max);
    }
    t
}

fn utf8_plain(r: &mut Rng, len: usize) -> String {
    let mut s = String::with_capacity(len);
    while s.len() < len {
        let left = len - s.len();
        let cp = if r.chance(1, 3) {
            *r.pick(&SCALARS)
        } else {
            match r.below(4) {
                0 => r.range(0x20, 0x7e) as u32,
                1 => r.range(0x80, 0x7ff) as u32,
                2 => r.range(0x800, 0xffff) as u32,
                _ => r.range(0x10000, 0x10ffff) as u32,
            }
        };
        let ch = match char::from_u32(cp) {
            Some(c) => c,
            None => 'x', // surrogate range
        };
        if ch.len_utf8() <= left {
            s.push(ch);
        } else {
            // fill the tail with ASCII
            s.push((b'a' + (r.below(26) as u8)) as char);
        }
    }
    s
}

/// Well-formed option list (type, length >= 2, data) of exactly `n` octets (n = 1 is padded by a
/// single stray octet).
fn option_list(r: &mut Rng, n: usize) -> Vec<u8> {
    let mut v = Vec::with_capacity(n);
    while v.len() < n {
        let left = n - v.len();
        if left == 1 {
            v.push(r.u8());
            break;
        }
        let l = if left <= 3 || r.chance(1, 3) { left.min(255) } else { r.range(2, (left.min(40)) as u64) as usize };
        let l = if left - l == 1 { l - 1 } else { l }.max(2);
        v.push(*r.pick(&[1u8, 2, 3, 5, 7, 8, 13, 0x11]));
        v.push(l as u8);
        let body = r.bytes(l - 2);
        v.extend_from_slice(&body);
    }
    v.truncate(n);
    v
}

/// Octets shaped like what these AVPs carry in practice: an LCP-style packet
/// (code, identifier, 16-bit length, option list), possibly nested, with the length field exact,
/// off by one, or zero. Exactly `n` octets.
pub fn protocol_like(r: &mut Rng, n: usize) -> Vec<u8> {
    if n < 5 {
        return option_list(r, n);
    }
    let depth = *r.pick(&[0usize, 1, 1, 1, 2, 2, 3]);
    let mut v = Vec::with_capacity(n);
    let mut left = n;
    if left >= 9 && r.chance(1, 3) {
        // PPP framing in front: address/control ff 03 (sometimes compressed away) + protocol
        // (LCP c021, PAP c023, CHAP c223, IPCP 8021)
        if r.chance(2, 3) {
            v.extend_from_slice(&[0xff, 0x03]);
            left -= 2;
        }
        let proto: [u8; 2] = *r.pick(&[[0xc0, 0x21], [0xc0, 0x21], [0xc0, 0x23], [0xc2, 0x23], [0x80, 0x21]]);
        v.extend_from_slice(&proto);
        left -= 2;
    }
    for _ in 0..depth {
        if left < 5 {
            break;
        }
        let code = *r.pick(&[1u8, 1, 1, 2, 3, 4, 9, 10, 0]);
        let len = match r.below(8) {
            0 => left.wrapping_sub(1),
            1 => left + 1,
            2 => 0,
            _ => left,
        } as u16;
        v.push(code);
        v.push(if r.bool() { 0x2a } else { r.u8() });
        v.push((len >> 8) as u8);
        v.push(len as u8);
        left -= 4;
    }
    let tail = option_list(r, left);
    v.extend_from_slice(&tail);
    v
}

pub const KINDS: usize = 40; // 39 standard + hidden

/// The attribute number of kind index k (0..39), `None` for the hidden pseudo-kind (39).
pub fn kind_attr(k: usize) -> Option<u16> {
    if k < 39 {
        Some(ATTRS[k].0)
    } else {
        None
    }
}

/// A value of the given attribute number, inside the encodable domain of C03 (variable parts
/// non-empty, payload <= 1017). `max_payload` further limits variable parts.
pub fn avp_of(r: &mut Rng, attr: u16, max_payload: usize) -> SAvp {
    let fmt = format_of(attr).expect("assigned attribute");
    let maxp = max_payload.min(MAX_PAYLOAD);
    let body = match fmt {
        Fmt::Code16 => match attr {
            0 => SBody::U16(r.pick(&MESSAGE_TYPES).0),
            29 => SBody::U16(r.pick(&PROXY_AUTHEN_TYPES).0),
            _ => unreachable!(),
        },
        Fmt::U16 => SBody::U16(r.u16b()),
        Fmt::U32 => SBody::U32(r.u32b()),
        Fmt::U64 => SBody::U64(r.u64b()),
        Fmt::Fixed(n) => SBody::Bytes(r.bytes(n)),
        Fmt::VarBytes => {
            let n = var_len(r, maxp);
            if maxp >= 8 && r.chance(1, 12) {
                SBody::Bytes(realistic_text(r, attr, maxp).into_bytes())
            } else if r.chance(1, 5) {
                SBody::Bytes(protocol_like(r, n))
            } else {
                SBody::Bytes(r.bytes(n))
            }
        }
        Fmt::VarStr => {
            if maxp >= 8 && r.chance(1, 6) {
                SBody::Str(realistic_text(r, attr, maxp))
            } else {
                let n = var_len(r, maxp);
                SBody::Str(utf8_exact(r, n))
            }
        }
        Fmt::Empty => SBody::Empty,
        Fmt::Result => {
            let code = if r.chance(2, 3) { r.range(0, 12) as u16 } else { r.u16b() };
            let err = if r.chance(2, 3) {
                let et = r.pick(&ERROR_TYPES).0;
                let msg = if maxp > 24 && r.chance(1, 8) {
                    Some(realistic_text(r, attr, maxp - 4))
                } else if r.chance(1, 2) && maxp > 4 {
                    let n = var_len(r, maxp - 4);
                    Some(utf8_exact(r, n))
                } else {
                    None
                };
                Some((et, msg))
            } else {
                None
            };
            SBody::Result { code, err }
        }
        Fmt::Version => SBody::Version { ver: r.u8(), rev: r.u8() },
        Fmt::Q931 => {
            let adv = if maxp > 24 && r.chance(1, 8) {
                Some(realistic_text(r, attr, maxp - 3))
            } else if r.chance(1, 2) && maxp > 3 {
                let n = var_len(r, maxp - 3);
                Some(utf8_exact(r, n))
            } else {
                None
            };
            SBody::Q931 { code: r.u16b(), msg: r.u8(), adv }
        }
        Fmt::ProxyId => SBody::ProxyId(r.u8()),
        Fmt::CallErrors => SBody::CallErrors([r.u32b(), r.u32b(), r.u32b(), r.u32b(), r.u32b(), r.u32b()]),
        Fmt::Accm => {
            let a = r.bytes(8);
            SBody::Accm([a[0], a[1], a[2], a[3]], [a[4], a[5], a[6], a[7]])
        }
    };
    SAvp { attr, hidden: false, body }
}

/// Opaque hidden AVP: any attribute number, any value (empty included), up to `max_payload`.
pub fn hidden_avp(r: &mut Rng, max_payload: usize) -> SAvp {
    let attr = if r.chance(1, 2) { r.range(0, 40) as u16 } else { r.u16b() };
    let maxp = max_payload.min(MAX_PAYLOAD);
    let n = match r.below(6) {
        0 => 0,
        1 => 16 * r.range(1, 8) as usize,
        2 => 1008,
        _ => var_len(r, maxp.max(1)),
    }
    .min(maxp);
    SAvp { attr, hidden: true, body: SBody::Bytes(r.bytes(n)) }
}

pub fn avp_kind(r: &mut Rng, k: usize, max_payload: usize) -> SAvp {
    match kind_attr(k) {
        Some(a) => avp_of(r, a, max_payload),
        None => hidden_avp(r, max_payload),
    }
}

pub fn any_avp(r: &mut Rng, max_payload: usize) -> SAvp {
    let k = r.below(KINDS as u64) as usize;
    avp_kind(r, k, max_payload)
}

/// Control message in the encodable domain: first AVP (if any) a Message Type; total <= 65535.
pub fn control(r: &mut Rng, max_avps: usize, max_payload: usize) -> SControl {
    if max_avps >= 4 && max_payload >= 40 {
        match r.below(16) {
            0 | 1 => return scenario(r, max_payload),
            2 if !super::small_sizes() => return wide(r),
            _ => {}
        }
    }
    let n = match r.below(8) {
        0 => 0,
        1 => 1,
        _ => r.range(0, max_avps as u64) as usize,
    };
    let mut avps = Vec::with_capacity(n);
    let mut total = 12usize;
    for i in 0..n {
        let a = if i == 0 { avp_of(r, 0, max_payload) } else { any_avp(r, max_payload) };
        let sz = encode::payload(&a).len() + 6;
        if total + sz > 65535 {
            break;
        }
        total += sz;
        avps.push(a);
    }
    SControl { length: total as u16, tunnel: r.u16b(), session: r.u16b(), ns: r.u16b(), nr: r.u16b(), avps }
}

/// G-scenario: a control message as RFC 2661 section 6 composes it - the message type's mandatory
/// AVPs, a random subset of its optional ones, in the RFC's order or shuffled - and, in one case in
/// three, with *coincidences*: all octet-string fields share one 16-octet value (cut to size for
/// the fixed-size kinds), all 16-, 32- and 64-bit fields share one number, all texts are equal.
/// Independent generators never make a Challenge equal to a Challenge Response or the Tx speed
/// equal to the Rx speed; real peers (and attackers reflecting a value) do.
pub fn scenario(r: &mut Rng, max_payload: usize) -> SControl {
    // (message type, mandatory, optional)
    const T: [(u16, &[u16], &[u16]); 14] = [
        (1, &[2, 7, 3, 9], &[4, 10, 11, 5, 6, 8]),
        (2, &[2, 7, 3, 9], &[4, 10, 11, 13, 6, 8]),
        (3, &[], &[13]),
        (4, &[9, 1], &[]),
        (6, &[], &[]),
        (7, &[14, 15, 16, 17, 18, 19, 21], &[23]),
        (8, &[14], &[25]),
        (9, &[24, 19], &[38, 39]),
        (10, &[14, 15], &[18, 25, 22, 21, 23]),
        (11, &[14], &[]),
        (12, &[24, 19], &[26, 27, 28, 29, 30, 31, 32, 33, 37, 38, 39]),
        (14, &[1, 14], &[12]),
        (15, &[34], &[]),
        (16, &[35], &[]),
    ];
    let (mt, mand, opt) = *r.pick(&T);
    let mut attrs: Vec<u16> = mand.to_vec();
    for a in opt.iter() {
        if r.chance(2, 3) {
            attrs.push(*a);
        }
    }
    if r.chance(1, 6) {
        attrs.push(36);
    }
    if r.chance(1, 4) {
        // any order
        for i in (1..attrs.len()).rev() {
            let j = r.below(i as u64 + 1) as usize;
            attrs.swap(i, j);
        }
    }
    let maxp = max_payload.min(MAX_PAYLOAD);
    let mut avps = vec![SAvp { attr: 0, hidden: false, body: SBody::U16(mt) }];
    for a in attrs {
        let mut v = avp_of(r, a, maxp.min(64));
        if let SBody::Result { code, .. } = &mut v.body {
            *code = if mt == 4 { r.range(1, 7) as u16 } else { r.range(1, 11) as u16 };
        }
        avps.push(v);
    }
    if r.chance(1, 3) {
        let master = r.bytes(16);
        let num = r.u64b();
        let text = realistic_text(r, 21, maxp.min(40));
        for v in avps.iter_mut().skip(1) {
            let fmt = format_of(v.attr);
            match (&mut v.body, fmt) {
                (SBody::Bytes(b), Some(Fmt::Fixed(n))) => *b = master[..n.min(16)].iter().cloned().cycle().take(n).collect(),
                (SBody::Bytes(b), _) if maxp >= 16 => *b = master.clone(),
                (SBody::U16(x), Some(Fmt::U16)) => *x = num as u16,
                (SBody::U32(x), _) => *x = num as u32,
                (SBody::U64(x), _) => *x = num,
                (SBody::Str(t), _) => *t = text.clone(),
                _ => {}
            }
        }
    }
    let total = 12 + avps.iter().map(|a| encode::payload(a).len() + 6).sum::<usize>();
    SControl { length: total as u16, tunnel: r.u16b(), session: r.u16b(), ns: r.u16b(), nr: r.u16b(), avps }
}

/// A control message with many small AVPs (33..400, rarely up to 6000): counts beyond any inline
/// capacity (8, 16, 32, 64, 128, 256 entries) an implementation might keep per message.
pub fn wide(r: &mut Rng) -> SControl {
    let n = match r.below(12) {
        0 => r.range(400, 6000) as usize,
        1 => *r.pick(&[33usize, 65, 129, 257, 513, 1025]),
        _ => r.range(33, 400) as usize,
    };
    let mut avps = vec![avp_of(r, 0, 8)];
    let mut total = 12 + 8;
    for _ in 1..n {
        let a = any_avp(r, 8);
        let sz = encode::payload(&a).len() + 6;
        if total + sz > 65535 {
            break;
        }
        total += sz;
        avps.push(a);
    }
    SControl { length: total as u16, tunnel: r.u16b(), session: r.u16b(), ns: r.u16b(), nr: r.u16b(), avps }
}

/// Control message of exactly `target` octets (12 <= target <= 65535, target - 12 not in 1..=5
/// and not in 6+{1}.. impossible sizes are rounded down by the caller).
pub fn control_exact(r: &mut Rng, target: usize) -> SControl {
    let mut avps = vec![avp_of(r, 0, 8)];
    let mut total = 12 + 8;
    while total < target {
        let left = target - total;
        if left < 7 {
            break;
        }
        // need each record >= 7 (1 payload octet) ; choose so that remainder is 0 or >= 7
        let mut sz = left.min(1023);
        if left - sz != 0 && left - sz < 7 {
            sz -= 7;
        }
        let attr = *r.pick(&[7u16, 11, 26, 27, 28, 30, 31, 33, 37]);
        avps.push(SAvp { attr, hidden: false, body: SBody::Bytes(r.bytes(sz - 6)) });
        total += sz;
    }
    SControl { length: total as u16, tunnel: r.u16b(), session: r.u16b(), ns: r.u16b(), nr: r.u16b(), avps }
}

/// Data message inside the domain of C04: non-empty payload, length absent or the true size,
/// offset absent or n <= |data| - 1.
pub fn data(r: &mut Rng, flags: Option<u8>, max_data: usize) -> SData {
    // flags bit0 = L, bit1 = S, bit2 = O, bit3 = P
    let f = flags.unwrap_or_else(|| r.below(16) as u8);
    let n = match r.below(6) {
        0 => 1,
        1 => 2,
        2 => r.range(1, 8) as usize,
        _ => r.range(1, max_data.max(1) as u64) as usize,
    };
    let data = if r.chance(1, 5) { protocol_like(r, n) } else { r.bytes(n) };
    let offset = if f & 4 != 0 {
        Some(match r.below(4) {
            0 => 0,
            1 => (n - 1) as u16,
            _ => r.below(n as u64) as u16,
        })
    } else {
        None
    };
    let mut d = SData {
        prio: f & 8 != 0,
        length: None,
        tunnel: r.u16b(),
        session: r.u16b(),
        nsnr: if f & 2 != 0 { Some((r.u16b(), r.u16b())) } else { None },
        offset,
        data,
    };
    if f & 1 != 0 {
        d.length = Some(0);
        let sz = encode::data_size(&d);
        d.length = Some(sz as u16);
    }
    d
}

pub fn secret(r: &mut Rng) -> Vec<u8> {
    const L: [usize; 14] = [0, 1, 15, 16, 17, 47, 48, 49, 50, 55, 56, 57, 58, 64];
    if r.chance(1, 10) {
        // secrets as people type them into configuration files
        let t: &[u8] = *r.pick(&[&b"secret"[..], b"hex:deadbeef00", b"hex:00", b"hex:0123456789abcdef0123456789abcdef", b"0xdeadbeef", b"base64:AAAAAA==", b"password\n", b"p\xc3\xa4ss wort", b"\"quoted\"", b"$1$salt$hash", b"%s%n", b" "]);
        return t.to_vec();
    }
    let n = match r.below(16) {
        0..=10 => *r.pick(&L),
        // around every power of two from 2^6 to 2^16, where fixed-size scratch buffers end
        11 => {
            // (2^13..2^16 more rarely: every cipher block hashes the whole secret)
            let k = if r.chance(1, 6) { r.range(13, 16) as u32 } else { r.range(6, 12) as u32 };
            ((1usize << k) + 8).saturating_sub(r.range(0, 40) as usize)
        }
        12 => r.range(1000, 1030) as usize,
        13 if r.chance(1, 60) => *r.pick(&[65_533usize, 65_534, 65_535, 65_536, 65_537, 70_000]),
        _ => r.range(0, 200) as usize,
    };
    let n = match r.dict_int(4_200) {
        Some(v) => v as usize,
        None => n,
    };
    let n = if super::small_sizes() { n.min(300) } else { n };
    r.bytes(n)
}
