//! G-dict: integer and short string literals harvested by the supervisor from the source under
//! test (environment VP_DICT / VP_DICT_STR). A branch guarded by a constant that no
//! boundary-biased generator has a reason to produce is otherwise never driven; the constants the
//! code itself mentions are offered to every integer field, length and payload the generators
//! draw. Empty when the supervisor supplied nothing (the generators then behave as without it).

use std::sync::OnceLock;

pub struct Dict {
    /// "rare" integer literals (above the enumerations the grids cover exhaustively), ascending
    pub ints: Vec<u64>,
    pub strs: Vec<Vec<u8>>,
}

static D: OnceLock<Dict> = OnceLock::new();

fn unhex(s: &str) -> Option<Vec<u8>> {
    if s.len() % 2 != 0 {
        return None;
    }
    (0..s.len() / 2).map(|i| u8::from_str_radix(s.get(2 * i..2 * i + 2)?, 16).ok()).collect()
}

pub fn get() -> &'static Dict {
    D.get_or_init(|| {
        let ints = std::env::var("VP_DICT")
            .map(|v| v.split(',').filter_map(|x| x.trim().parse::<u64>().ok()).collect::<Vec<_>>())
            .unwrap_or_default();
        let strs = std::env::var("VP_DICT_STR")
            .map(|v| v.split(',').filter_map(|x| unhex(x.trim())).filter(|b| !b.is_empty()).collect::<Vec<_>>())
            .unwrap_or_default();
        Dict { ints, strs }
    })
}

/// The dictionary integers that fit `max`, each with its two neighbours.
pub fn ints_upto(max: u64) -> Vec<u64> {
    let mut v: Vec<u64> = Vec::new();
    for &x in get().ints.iter() {
        for y in [x.wrapping_sub(1), x, x.wrapping_add(1)] {
            if y <= max {
                v.push(y);
            }
        }
    }
    v.sort_unstable();
    v.dedup();
    v
}
