pub mod rng;
pub mod val;
pub mod wire;
pub use rng::Rng;
