pub mod dict;
pub mod rng;
pub mod val;
pub mod wire;
pub use rng::Rng;

/// Set by the worker in the interpreter tier: generators then avoid sizes that cost the
/// interpreter minutes (the native tiers cover them).
pub static SMALL_SIZES: std::sync::atomic::AtomicBool = std::sync::atomic::AtomicBool::new(false);

pub fn small_sizes() -> bool {
    SMALL_SIZES.load(std::sync::atomic::Ordering::Relaxed)
}
