//! Entry points for the coverage-guided workload (thorough tier): one input, all oracles of the
//! selected property, abort on the first violation so that libFuzzer keeps the input.

use crate::gen::Rng;
use crate::monitor;
use crate::props::{self, Ctx, Tier};
use crate::report::Report;

fn selected() -> String {
    std::env::var("VP_FUZZ_PROP").unwrap_or_else(|_| "ALL".to_string())
}

fn finish(rep: &Report) {
    if rep.violation_count > 0 {
        let v = &rep.violations[0];
        eprintln!("VP-VIOLATION property={} signature={} detail={}", &v.signature[..3], v.signature, v.detail);
        std::process::abort();
    }
}

fn ctx<'a>(rep: &'a mut Report, num: u32, data: &[u8]) -> Ctx<'a> {
    let h = monitor::hll::hash_bytes(1, data);
    Ctx { seed: 1, tier: Tier::Quick, build: "fuzz".into(), rep, stream: "fuzz", stream_no: 0, idx: h, rng: Rng::new(h), prop_num: num, corpus: None, describe: false }
}

pub fn decode(data: &[u8]) {
    monitor::panic::install_silent_hook();
    let which = selected();
    if which == "ALL" || which == "C01" {
        let mut rep = Report::new("C01", 0);
        let mut c = ctx(&mut rep, 1, data);
        props::c01::judge(&mut c, data, "fuzz");
        finish(&rep);
    }
    if which == "ALL" || which == "C02" {
        let mut rep = Report::new("C02", 0);
        let mut c = ctx(&mut rep, 2, data);
        let o = crate::spec::model::SOpts::from_index((data.len() % 8) as u8);
        props::c02::judge_msg(&mut c, data, Some(o));
        props::c02::judge_avps(&mut c, data);
        finish(&rep);
    }
    if which == "ALL" || which == "C05" {
        let mut rep = Report::new("C05", 0);
        let mut c = ctx(&mut rep, 5, data);
        props::c05::judge(&mut c, data, "fuzz");
        props::c05::judge_avps(&mut c, data);
        if rep.buckets.contains_key("selfcheck.care_mask_unsound") {
            // harness defect, not a property violation: do not keep the input
            return;
        }
        finish(&rep);
    }
    if which == "ALL" || which == "C10" {
        let mut rep = Report::new("C10", 0);
        let mut c = ctx(&mut rep, 10, data);
        props::c10::judge(&mut c, data, &[]);
        finish(&rep);
    }
    if which == "ALL" || which == "C14" {
        let mut rep = Report::new("C14", 0);
        let mut c = ctx(&mut rep, 14, data);
        props::c14::judge(&mut c, data);
        finish(&rep);
    }
}

pub fn reveal(data: &[u8]) {
    monitor::panic::install_silent_hook();
    if data.len() < 8 {
        return;
    }
    let attr = ((data[0] as u16) << 8 | data[1] as u16) % 48;
    let slen = (data[2] as usize) % 24;
    let rv = [data[3], data[4], data[5], data[6]];
    let rest = &data[7..];
    let slen = slen.min(rest.len());
    let secret = &rest[..slen];
    let value = &rest[slen..];
    let mut rep = Report::new("C13", 0);
    {
        let mut c = ctx(&mut rep, 13, data);
        props::c13::judge(&mut c, attr, value, secret, rv, None);
    }
    finish(&rep);
    // C12: agreement with the reference reveal
    let want = crate::spec::hide::reveal(attr, value, secret, &rv);
    let got = crate::exec::reveal(crate::exec::hidden_exact(attr, value), secret, rv);
    let agree = match (&want, &got) {
        (Ok(a), crate::exec::Out::Ok(b)) => a == b,
        (Err(_), crate::exec::Out::Err(_)) => true,
        _ => false,
    };
    if !agree {
        eprintln!("VP-VIOLATION property=C12 signature=C12:reveal-differs-from-reference detail=reference {:?} crate {:?}", want, got);
        std::process::abort();
    }
}
