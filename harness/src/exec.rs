//! M3: the API boundary. Every call into the codec goes through here: the input is copied into an
//! exact-size heap block, the call runs under panic capture, and the outcome is converted to the
//! reference model immediately so no borrowed data escapes.

use crate::glue;
use crate::monitor::panic::{catch, Ended, PanicInfo};
use crate::monitor::reader::{ContractReader, RLog, ReentrantReader, SeamReader, SegmentedReader, VirtualTailReader, WipingBuf};
use crate::monitor::writer::{BoundedWriter, OffsetWriter, RecordingWriter, WEvent};
use crate::spec::model::*;
use rl2tp::avp::types as t;
use rl2tp::avp::AVP;
use rl2tp::common::{DecodeError, DecodeResult, Reader, SliceReader, VecWriter, Writer};
use rl2tp::Message;
use std::borrow::Borrow;
use std::cell::RefCell;
use std::rc::Rc;

#[derive(Debug)]
pub enum Out<T> {
    Ok(T),
    Err(Vec<DecodeError>),
    Panic(PanicInfo),
    Budget,
}

impl<T> Out<T> {
    pub fn class(&self) -> &'static str {
        match self {
            Out::Ok(_) => "ok",
            Out::Err(_) => "err",
            Out::Panic(_) => "panic",
            Out::Budget => "budget",
        }
    }
    pub fn is_ok(&self) -> bool {
        matches!(self, Out::Ok(_))
    }
    pub fn is_err(&self) -> bool {
        matches!(self, Out::Err(_))
    }
    pub fn abnormal(&self) -> bool {
        matches!(self, Out::Panic(_) | Out::Budget)
    }
}

#[derive(Clone, Copy, Debug, PartialEq, Eq)]
pub enum Rk {
    Slice,
    ContractSlice,
    ContractVec,
    Segmented(usize),
    /// contract reader that performs a nested decode on its n-th call
    Reentrant(u64),
    /// the input followed by that many virtual zero octets
    VirtualTail(usize),
    /// contract reader whose `T` is a lease that wipes its octets when dropped
    Wiping,
    /// owning reader whose sub-reader / bytes calls each take that many microseconds
    Slow(u64),
}

pub const ALL_READERS: [Rk; 4] = [Rk::Slice, Rk::ContractSlice, Rk::ContractVec, Rk::Segmented(3)];

pub struct Run<T> {
    pub out: Out<T>,
    /// octets left in the reader after the call returned (meaningless after a panic)
    pub remaining: usize,
    pub log: Option<Rc<RefCell<RLog>>>,
}

fn finish<T, U>(e: Ended<(Result<T, Vec<DecodeError>>, usize)>, log: Option<Rc<RefCell<RLog>>>, conv: impl FnOnce(T) -> U) -> Run<U> {
    match e {
        Ended::Returned((Ok(v), rem)) => Run { out: Out::Ok(conv(v)), remaining: rem, log },
        Ended::Returned((Err(e), rem)) => Run { out: Out::Err(e), remaining: rem, log },
        Ended::Panicked(p) => Run { out: Out::Panic(p), remaining: 0, log },
        Ended::StepBudget => Run { out: Out::Budget, remaining: 0, log },
    }
}

/// The input in its own exact-size heap block; for about half of the inputs (chosen by content)
/// the block has one extra leading octet and the input starts at offset 1, i.e. at an odd address:
/// nothing may depend on where in memory the octets live.
fn placed(b: &[u8]) -> (Box<[u8]>, usize) {
    let h = b.iter().fold(b.len() as u32, |a, x| a.wrapping_mul(31).wrapping_add(*x as u32));
    let shift = ((h >> 3) & 1) as usize;
    let mut v = Vec::with_capacity(b.len() + shift);
    if shift == 1 {
        v.push(0xee);
    }
    v.extend_from_slice(b);
    (v.into_boxed_slice(), shift)
}

/// `Message::try_read_validate` (or `try_read` when `o` is `None`) through the chosen reader.
pub fn decode_msg(b: &[u8], o: Option<SOpts>, rk: Rk) -> Run<SMsg> {
    let (placed_box, shift) = placed(b);
    let boxed: &[u8] = &placed_box[shift..];
    match rk {
        Rk::Slice => {
            let e = catch(|| {
                let mut r = SliceReader::from(&boxed);
                let res = match o {
                    Some(o) => Message::<&[u8]>::try_read_validate(&mut r, glue::opts(o)),
                    None => Message::<&[u8]>::try_read(&mut r),
                };
                (res.map(|m| glue::msg_to_spec(&m)), r.len())
            });
            finish(e, None, |m| m)
        }
        Rk::ContractSlice => {
            let log = RLog::new(boxed.len());
            let l2 = log.clone();
            let e = catch(|| {
                let mut r: ContractReader<&[u8]> = ContractReader::new(&boxed, l2);
                let res = match o {
                    Some(o) => Message::<&[u8]>::try_read_validate(&mut r, glue::opts(o)),
                    None => Message::<&[u8]>::try_read(&mut r),
                };
                (res.map(|m| glue::msg_to_spec(&m)), r.remaining())
            });
            finish(e, Some(log), |m| m)
        }
        Rk::ContractVec => {
            let log = RLog::new(boxed.len());
            let l2 = log.clone();
            let e = catch(|| {
                let mut r: ContractReader<Vec<u8>> = ContractReader::new(&boxed, l2);
                let res = match o {
                    Some(o) => Message::<Vec<u8>>::try_read_validate(&mut r, glue::opts(o)),
                    None => Message::<Vec<u8>>::try_read(&mut r),
                };
                (res.map(|m| glue::msg_to_spec(&m)), r.remaining())
            });
            finish(e, Some(log), |m| m)
        }
        Rk::Segmented(chunk) => {
            let log = RLog::new(boxed.len());
            let l2 = log.clone();
            let e = catch(|| {
                let mut r = SegmentedReader::new(&boxed, chunk, l2);
                let res = match o {
                    Some(o) => Message::<Vec<u8>>::try_read_validate(&mut r, glue::opts(o)),
                    None => Message::<Vec<u8>>::try_read(&mut r),
                };
                (res.map(|m| glue::msg_to_spec(&m)), r.remaining())
            });
            finish(e, Some(log), |m| m)
        }
        Rk::Reentrant(trigger) => {
            let log = RLog::new(boxed.len());
            let l2 = log.clone();
            let e = catch(|| {
                let mut r = ReentrantReader::new(&boxed, l2, trigger);
                let res = match o {
                    Some(o) => Message::<Vec<u8>>::try_read_validate(&mut r, glue::opts(o)),
                    None => Message::<Vec<u8>>::try_read(&mut r),
                };
                (res.map(|m| glue::msg_to_spec(&m)), r.remaining())
            });
            finish(e, Some(log), |m| m)
        }
        Rk::Wiping => {
            let log = RLog::new(boxed.len());
            let l2 = log.clone();
            crate::monitor::reader::reset_live_leases();
            let e = catch(|| {
                let mut r: ContractReader<WipingBuf> = ContractReader::new(&boxed, l2);
                let res = match o {
                    Some(o) => Message::<WipingBuf>::try_read_validate(&mut r, glue::opts(o)),
                    None => Message::<WipingBuf>::try_read(&mut r),
                };
                (res.map(|m| glue::msg_to_spec(&m)), r.remaining())
            });
            finish(e, Some(log), |m| m)
        }
        Rk::Slow(us) => {
            let e = catch(|| {
                let mut r = crate::monitor::reader::SlowReader::new(&boxed, std::time::Duration::from_micros(us));
                let res = match o {
                    Some(o) => Message::<Vec<u8>>::try_read_validate(&mut r, glue::opts(o)),
                    None => Message::<Vec<u8>>::try_read(&mut r),
                };
                (res.map(|m| glue::msg_to_spec(&m)), r.remaining())
            });
            finish(e, None, |m| m)
        }
        Rk::VirtualTail(tail) => {
            let e = catch(|| {
                let mut r = VirtualTailReader::new(&boxed, tail);
                let res = match o {
                    Some(o) => Message::<Vec<u8>>::try_read_validate(&mut r, glue::opts(o)),
                    None => Message::<Vec<u8>>::try_read(&mut r),
                };
                (res.map(|m| glue::msg_to_spec(&m)), r.remaining())
            });
            finish(e, None, |m| m)
        }
    }
}

pub type AvpList = Vec<Result<SAvp, DecodeError>>;

fn conv_list(v: Vec<DecodeResult<AVP>>) -> AvpList {
    v.into_iter().map(|x| x.map(|a| glue::avp_to_spec(&a))).collect()
}

/// `AVP::try_read_greedy`
pub fn decode_avps(b: &[u8], rk: Rk) -> Run<AvpList> {
    let (placed_box, shift) = placed(b);
    let boxed: &[u8] = &placed_box[shift..];
    let rk = match rk {
        Rk::Reentrant(_) | Rk::VirtualTail(_) | Rk::Wiping | Rk::Slow(_) => Rk::ContractVec,
        k => k,
    };
    match rk {
        Rk::Reentrant(_) | Rk::VirtualTail(_) | Rk::Wiping | Rk::Slow(_) => unreachable!(),
        Rk::Slice => {
            let e = catch(|| {
                let mut r = SliceReader::from(&boxed);
                let res = AVP::try_read_greedy(&mut r);
                (Ok(conv_list(res)), r.len())
            });
            finish(e, None, |m| m)
        }
        Rk::ContractSlice => {
            let log = RLog::new(boxed.len());
            let l2 = log.clone();
            let e = catch(|| {
                let mut r: ContractReader<&[u8]> = ContractReader::new(&boxed, l2);
                let res = AVP::try_read_greedy(&mut r);
                (Ok(conv_list(res)), r.remaining())
            });
            finish(e, Some(log), |m| m)
        }
        Rk::ContractVec => {
            let log = RLog::new(boxed.len());
            let l2 = log.clone();
            let e = catch(|| {
                let mut r: ContractReader<Vec<u8>> = ContractReader::new(&boxed, l2);
                let res = AVP::try_read_greedy(&mut r);
                (Ok(conv_list(res)), r.remaining())
            });
            finish(e, Some(log), |m| m)
        }
        Rk::Segmented(chunk) => {
            let log = RLog::new(boxed.len());
            let l2 = log.clone();
            let e = catch(|| {
                let mut r = SegmentedReader::new(&boxed, chunk, l2);
                let res = AVP::try_read_greedy(&mut r);
                (Ok(conv_list(res)), r.remaining())
            });
            finish(e, Some(log), |m| m)
        }
    }
}

/// Dispatch to the public per-type payload decoder of attribute `attr`. `None` when the crate
/// exposes no decoder for that number (unassigned; Sequencing Required has none).
pub fn type_try_read<T: Borrow<[u8]>, R: Reader<T>>(attr: u16, r: &mut R) -> Option<DecodeResult<AVP>> {
    Some(match attr {
        0 => t::MessageType::try_read(r).map(AVP::MessageType),
        1 => t::ResultCode::try_read(r).map(AVP::ResultCode),
        2 => t::ProtocolVersion::try_read(r).map(AVP::ProtocolVersion),
        3 => t::FramingCapabilities::try_read(r).map(AVP::FramingCapabilities),
        4 => t::BearerCapabilities::try_read(r).map(AVP::BearerCapabilities),
        5 => t::TieBreaker::try_read(r).map(AVP::TieBreaker),
        6 => t::FirmwareRevision::try_read(r).map(AVP::FirmwareRevision),
        7 => t::HostName::try_read(r).map(AVP::HostName),
        8 => t::VendorName::try_read(r).map(AVP::VendorName),
        9 => t::AssignedTunnelId::try_read(r).map(AVP::AssignedTunnelId),
        10 => t::ReceiveWindowSize::try_read(r).map(AVP::ReceiveWindowSize),
        11 => t::Challenge::try_read(r).map(AVP::Challenge),
        12 => t::Q931CauseCode::try_read(r).map(AVP::Q931CauseCode),
        13 => t::ChallengeResponse::try_read(r).map(AVP::ChallengeResponse),
        14 => t::AssignedSessionId::try_read(r).map(AVP::AssignedSessionId),
        15 => t::CallSerialNumber::try_read(r).map(AVP::CallSerialNumber),
        16 => t::MinimumBps::try_read(r).map(AVP::MinimumBps),
        17 => t::MaximumBps::try_read(r).map(AVP::MaximumBps),
        18 => t::BearerType::try_read(r).map(AVP::BearerType),
        19 => t::FramingType::try_read(r).map(AVP::FramingType),
        21 => t::CalledNumber::try_read(r).map(AVP::CalledNumber),
        22 => t::CallingNumber::try_read(r).map(AVP::CallingNumber),
        23 => t::SubAddress::try_read(r).map(AVP::SubAddress),
        24 => t::TxConnectSpeed::try_read(r).map(AVP::TxConnectSpeed),
        25 => t::PhysicalChannelId::try_read(r).map(AVP::PhysicalChannelId),
        26 => t::InitialReceivedLcpConfReq::try_read(r).map(AVP::InitialReceivedLcpConfReq),
        27 => t::LastSentLcpConfReq::try_read(r).map(AVP::LastSentLcpConfReq),
        28 => t::LastReceivedLcpConfReq::try_read(r).map(AVP::LastReceivedLcpConfReq),
        29 => t::ProxyAuthenType::try_read(r).map(AVP::ProxyAuthenType),
        30 => t::ProxyAuthenName::try_read(r).map(AVP::ProxyAuthenName),
        31 => t::ProxyAuthenChallenge::try_read(r).map(AVP::ProxyAuthenChallenge),
        32 => t::ProxyAuthenId::try_read(r).map(AVP::ProxyAuthenId),
        33 => t::ProxyAuthenResponse::try_read(r).map(AVP::ProxyAuthenResponse),
        34 => t::CallErrors::try_read(r).map(AVP::CallErrors),
        35 => t::Accm::try_read(r).map(AVP::Accm),
        36 => t::RandomVector::try_read(r).map(AVP::RandomVector),
        37 => t::PrivateGroupId::try_read(r).map(AVP::PrivateGroupId),
        38 => t::RxConnectSpeed::try_read(r).map(AVP::RxConnectSpeed),
        _ => return None,
    })
}

/// Per-type decoder driven directly with a payload.
pub fn decode_type(attr: u16, payload: &[u8], rk: Rk) -> Option<Run<SAvp>> {
    if !(attr <= 38 && attr != 20) {
        return None;
    }
    let (placed_box, shift) = placed(payload);
    let boxed: &[u8] = &placed_box[shift..];
    let one = |r: Result<AVP, DecodeError>| r.map(|a| glue::avp_to_spec(&a)).map_err(|e| vec![e]);
    let rk = match rk {
        Rk::Reentrant(_) | Rk::VirtualTail(_) | Rk::Wiping | Rk::Slow(_) => Rk::ContractVec,
        k => k,
    };
    Some(match rk {
        Rk::Reentrant(_) | Rk::VirtualTail(_) | Rk::Wiping | Rk::Slow(_) => unreachable!(),
        Rk::Slice => {
            let e = catch(|| {
                let mut r = SliceReader::from(&boxed);
                let res = type_try_read(attr, &mut r).unwrap();
                (one(res), r.len())
            });
            finish(e, None, |m| m)
        }
        Rk::ContractSlice => {
            let log = RLog::new(boxed.len());
            let l2 = log.clone();
            let e = catch(|| {
                let mut r: ContractReader<&[u8]> = ContractReader::new(&boxed, l2);
                let res = type_try_read(attr, &mut r).unwrap();
                (one(res), r.remaining())
            });
            finish(e, Some(log), |m| m)
        }
        Rk::ContractVec => {
            let log = RLog::new(boxed.len());
            let l2 = log.clone();
            let e = catch(|| {
                let mut r: ContractReader<Vec<u8>> = ContractReader::new(&boxed, l2);
                let res = type_try_read(attr, &mut r).unwrap();
                (one(res), r.remaining())
            });
            finish(e, Some(log), |m| m)
        }
        Rk::Segmented(chunk) => {
            let log = RLog::new(boxed.len());
            let l2 = log.clone();
            let e = catch(|| {
                let mut r = SegmentedReader::new(&boxed, chunk, l2);
                let res = type_try_read(attr, &mut r).unwrap();
                (one(res), r.remaining())
            });
            finish(e, Some(log), |m| m)
        }
    })
}

// ---------------------------------------------------------------------------------------------
// encoding

pub struct Encoded {
    pub bytes: Vec<u8>,
    pub events: Vec<WEvent>,
}

#[derive(Clone, Copy, Debug, PartialEq, Eq)]
pub enum Wk {
    Vec,
    Recording,
    /// window writer whose positions start at the given base (prefix must be empty)
    Offset(usize),
    /// the same, but an overwrite outside the window is silently dropped instead of refused
    OffsetLenient(usize),
    /// VecWriter created with spare capacity (a pre-sized buffer)
    Presized(usize),
    /// VecWriter that has been used for something else and cleared (a recycled buffer)
    Reused,
    /// fresh VecWriter, but the encode runs inside a destructor while the thread is unwinding
    /// from an unrelated panic (a session object saying goodbye from its `Drop`)
    WhileUnwinding,
}

pub enum EncOut {
    Ok(Encoded),
    Panic(PanicInfo),
}

impl EncOut {
    pub fn ok(self) -> Option<Encoded> {
        match self {
            EncOut::Ok(e) => Some(e),
            _ => None,
        }
    }
}

/// Encode a sequence of items into one writer that already holds `prefix`.
pub enum Item<'a> {
    Msg(&'a Message<Vec<u8>>),
    Avp(&'a AVP),
}

struct EncodeOnDrop<'a, 'b> {
    prefix: &'a [u8],
    items: &'a [Item<'b>],
    out: &'a std::cell::RefCell<Option<Result<Vec<u8>, crate::monitor::panic::PanicInfo>>>,
}

impl<'a, 'b> Drop for EncodeOnDrop<'a, 'b> {
    fn drop(&mut self) {
        // runs during unwinding: std::thread::panicking() is true here
        let (prefix, items) = (self.prefix, self.items);
        let r = std::panic::catch_unwind(std::panic::AssertUnwindSafe(|| {
            let mut w = VecWriter::new();
            w.write_bytes(prefix);
            for it in items {
                match it {
                    Item::Msg(m) => m.write(&mut w),
                    Item::Avp(a) => a.write(&mut w),
                }
            }
            w.data
        }));
        *self.out.borrow_mut() = Some(r.map_err(|_| crate::monitor::panic::PanicInfo { message: "encode refused while unwinding".into(), file: "?".into(), line: 0 }));
    }
}

struct UnrelatedPanic;

pub fn encode_items(prefix: &[u8], items: &[Item], wk: Wk) -> EncOut {
    if wk == Wk::WhileUnwinding {
        let out = std::cell::RefCell::new(None);
        let _ = std::panic::catch_unwind(std::panic::AssertUnwindSafe(|| {
            let _guard = EncodeOnDrop { prefix, items, out: &out };
            std::panic::panic_any(UnrelatedPanic);
        }));
        return match out.into_inner() {
            Some(Ok(bytes)) => EncOut::Ok(Encoded { bytes, events: vec![] }),
            Some(Err(p)) => EncOut::Panic(p),
            None => EncOut::Panic(crate::monitor::panic::PanicInfo { message: "guard did not run".into(), file: "?".into(), line: 0 }),
        };
    }
    match wk {
        Wk::WhileUnwinding => unreachable!(),
        Wk::Vec | Wk::Presized(_) | Wk::Reused => {
            let e = catch(|| {
                let mut w = match wk {
                    Wk::Presized(cap) => VecWriter { data: Vec::with_capacity(cap) },
                    Wk::Reused => {
                        let mut w = VecWriter::new();
                        // earlier use: a control message written field by field, then recycled
                        w.write_u16_be(0xc802);
                        for i in 0..40u16 {
                            w.write_u16_be(i);
                            w.write_u8(i as u8);
                        }
                        w.write_bytes(&[0xee; 300]);
                        w.data.clear();
                        w
                    }
                    _ => VecWriter::new(),
                };
                w.write_bytes(prefix);
                for it in items {
                    match it {
                        Item::Msg(m) => m.write(&mut w),
                        Item::Avp(a) => a.write(&mut w),
                    }
                }
                w.data
            });
            match e {
                Ended::Returned(bytes) => EncOut::Ok(Encoded { bytes, events: vec![] }),
                Ended::Panicked(p) => EncOut::Panic(p),
                Ended::StepBudget => unreachable!(),
            }
        }
        Wk::Offset(base) | Wk::OffsetLenient(base) => {
            let e = catch(|| {
                let mut w = OffsetWriter::new(base);
                w.lenient = matches!(wk, Wk::OffsetLenient(_));
                for it in items {
                    match it {
                        Item::Msg(m) => m.write(&mut w),
                        Item::Avp(a) => a.write(&mut w),
                    }
                }
                (w.data, w.events)
            });
            match e {
                Ended::Returned((bytes, events)) => EncOut::Ok(Encoded { bytes, events }),
                Ended::Panicked(p) => EncOut::Panic(p),
                Ended::StepBudget => unreachable!(),
            }
        }
        Wk::Recording => {
            let e = catch(|| {
                let mut w = RecordingWriter::with_prefix(prefix);
                for it in items {
                    match it {
                        Item::Msg(m) => m.write(&mut w),
                        Item::Avp(a) => a.write(&mut w),
                    }
                }
                (w.data, w.events)
            });
            match e {
                Ended::Returned((bytes, events)) => EncOut::Ok(Encoded { bytes, events }),
                Ended::Panicked(p) => EncOut::Panic(p),
                Ended::StepBudget => unreachable!(),
            }
        }
    }
}

pub fn encode_msg(m: &Message<Vec<u8>>, wk: Wk) -> EncOut {
    encode_items(&[], &[Item::Msg(m)], wk)
}
pub fn encode_avp(a: &AVP, wk: Wk) -> EncOut {
    encode_items(&[], &[Item::Avp(a)], wk)
}

pub fn get_length(a: &AVP) -> Result<usize, PanicInfo> {
    match catch(|| a.get_length()) {
        Ended::Returned(n) => Ok(n),
        Ended::Panicked(p) => Err(p),
        Ended::StepBudget => unreachable!(),
    }
}

// ---------------------------------------------------------------------------------------------
// hide / reveal

pub fn hide(a: AVP, secret: &[u8], rv: [u8; 4], lp: &[u8], ap: &[u8; 16]) -> Result<AVP, PanicInfo> {
    let secret: Box<[u8]> = secret.into();
    let lp: Box<[u8]> = lp.into();
    match catch(move || a.hide(&secret, &t::RandomVector { value: rv }, &lp, ap)) {
        Ended::Returned(h) => Ok(h),
        Ended::Panicked(p) => Err(p),
        Ended::StepBudget => unreachable!(),
    }
}

pub fn reveal(a: AVP, secret: &[u8], rv: [u8; 4]) -> Out<SAvp> {
    let secret: Box<[u8]> = secret.into();
    match catch(move || a.reveal(&secret, &t::RandomVector { value: rv }).map(|v| glue::avp_to_spec(&v))) {
        Ended::Returned(Ok(v)) => Out::Ok(v),
        Ended::Returned(Err(e)) => Out::Err(vec![e]),
        Ended::Panicked(p) => Out::Panic(p),
        Ended::StepBudget => unreachable!(),
    }
}

/// Hidden AVP whose value lives in an exact-capacity heap block (for red-zone sanitizers).
pub fn hidden_exact(attr: u16, value: &[u8]) -> AVP {
    let mut v = Vec::with_capacity(value.len());
    v.extend_from_slice(value);
    AVP::Hidden(t::Hidden { attribute_type: attr, value: v })
}

/// Decode a message through the seam reader (results are reported but not judged; see SeamReader).
pub fn decode_msg_seam(b: &[u8], seam: usize, o: Option<SOpts>) -> Out<SMsg> {
    let seam = seam.min(b.len());
    let a: Box<[u8]> = b[..seam].into();
    let c: Box<[u8]> = b[seam..].into();
    let e = catch(|| {
        let mut r = SeamReader::new(&a, &c);
        let res = match o {
            Some(o) => Message::<&[u8]>::try_read_validate(&mut r, glue::opts(o)),
            None => Message::<&[u8]>::try_read(&mut r),
        };
        res.map(|m| glue::msg_to_spec(&m))
    });
    match e {
        Ended::Returned(Ok(m)) => Out::Ok(m),
        Ended::Returned(Err(e)) => Out::Err(e),
        Ended::Panicked(p) => Out::Panic(p),
        Ended::StepBudget => Out::Budget,
    }
}

/// Fault provocation: a handful of calls that are *expected to fail* (refused encodes that panic
/// part-way, a writer that runs out of room, reveals that error out, garbage decodes). Their
/// outcomes are ignored; the point is that whatever the codec leaves behind after a failure must
/// not influence the checked calls that follow on the same thread.
pub fn provoke_failures(r: &mut crate::gen::Rng) {
    use crate::gen::val;
    let n = 1 + r.below(3);
    for _ in 0..n {
        match r.below(8) {
            0 => {
                // control message with one oversize AVP somewhere after valid ones
                let mut c = val::control(r, 4, 40);
                let big = SAvp { attr: *r.pick(&[7u16, 8, 11, 26, 33]), hidden: false, body: if r.bool() { SBody::Bytes(r.bytes_range(1018, 1100)) } else { SBody::Bytes(vec![0x41; 1018]) } };
                let big = if big.attr == 8 { SAvp { attr: 8, hidden: false, body: SBody::Str("x".repeat(1020)) } } else { big };
                if c.avps.is_empty() {
                    c.avps.push(val::avp_of(r, 0, 8));
                }
                let at = 1 + r.below(c.avps.len() as u64) as usize;
                c.avps.insert(at, big);
                if let Some(m) = glue::msg_to_crate(&SMsg::Control(c)) {
                    let _ = encode_msg(&m, if r.bool() { Wk::Vec } else { Wk::Recording });
                }
            }
            1 => {
                let a = SAvp { attr: 7, hidden: r.bool(), body: SBody::Bytes(r.bytes_range(1018, 1030)) };
                if let Some(ca) = glue::avp_to_crate(&a) {
                    let _ = encode_avp(&ca, Wk::Vec);
                    let _ = hide(ca, b"s", [0; 4], &[], &[0; 16]);
                }
            }
            2 | 3 => {
                // a writer that runs out of room part-way through a message / an AVP
                let m = glue::msg_to_crate(&SMsg::Control(val::control(r, 5, 40))).unwrap();
                let a = glue::avp_to_crate(&val::any_avp(r, 40)).unwrap();
                let cap = r.range(0, 40) as usize;
                let _ = catch(|| {
                    let mut w = BoundedWriter::new(cap);
                    if cap % 2 == 0 {
                        m.write(&mut w);
                    } else {
                        a.write(&mut w);
                    }
                    w.data.len()
                });
            }
            4 | 5 => {
                // reveals that fail: wrong key, crafted bad length, misaligned, empty
                let secret = val::secret(r);
                let mut rv = [0u8; 4];
                rv.copy_from_slice(&r.bytes(4));
                let n = 16 * r.range(1, 4) as usize;
                let mut plain = r.bytes(n);
                let declared: u16 = *r.pick(&[0u16, 3, 5, 1024, 0xffff, (n as u16) + 6, (n as u16) + 5, 200]);
                plain[0] = (declared >> 8) as u8;
                plain[1] = declared as u8;
                let v = crate::spec::hide::encrypt(7, &plain, &secret, &rv);
                let _ = reveal(hidden_exact(7, &v), &secret, rv);
                let _ = reveal(hidden_exact(7, &v[..v.len() - 1]), &secret, rv);
                let _ = reveal(hidden_exact(8, &[]), &secret, rv);
            }
            _ => {
                let (b, _) = crate::gen::wire::hostile(r);
                let _ = decode_msg(&b, Some(SOpts::from_index(r.below(8) as u8)), Rk::Slice);
                let _ = decode_avps(&b, Rk::Slice);
                let _ = decode_msg_seam(&b, r.below(b.len() as u64 + 1) as usize, None);
            }
        }
    }
}

/// Hidden AVP whose value vector has spare capacity behind its length (a truncated or reused Vec).
pub fn hidden_spare(attr: u16, value: &[u8], spare: usize) -> AVP {
    let mut v = Vec::with_capacity(value.len() + spare);
    v.extend_from_slice(value);
    AVP::Hidden(t::Hidden { attribute_type: attr, value: v })
}


/// Thread environments nothing in the API forbids: the call is made on a fresh thread with a
/// modest stack, once in the thread's body and again from the destructors of two thread-locals
/// of the application while the thread is being torn down - one registered before the body call
/// and one after it, so that whatever order the platform runs destructors in, one of the two
/// runs after any thread-local the codec itself may have created during the body call.
pub mod threadenv {
    use std::cell::RefCell;
    use std::sync::mpsc;

    struct RunAtExit(Option<Box<dyn FnOnce()>>);
    impl Drop for RunAtExit {
        fn drop(&mut self) {
            if let Some(f) = self.0.take() {
                let _ = std::panic::catch_unwind(std::panic::AssertUnwindSafe(f));
            }
        }
    }
    thread_local! {
        static BEFORE: RefCell<RunAtExit> = RefCell::new(RunAtExit(None));
        static AFTER: RefCell<RunAtExit> = RefCell::new(RunAtExit(None));
    }

    pub struct ThreadRun<R> {
        /// result of the call in the thread's body (None: the thread died)
        pub body: Option<R>,
        /// results of the calls made from the two destructors, in the order they ran
        pub teardown: Vec<R>,
        /// deepest extent of the thread's stack touched by the body call, in octets
        pub stack_used: usize,
    }

    /// stack painting is only done in the plain native builds (the worker switches it on): the
    /// sanitizer runtimes keep their own view of the stack
    pub static MEASURE: std::sync::atomic::AtomicBool = std::sync::atomic::AtomicBool::new(false);
    pub const STACK: usize = 256 * 1024;
    const PAINT: usize = 192 * 1024;
    const PATTERN: u8 = 0xa7;

    /// Fill the unused stack below this frame with a pattern, run `f`, and report how far down
    /// the pattern was disturbed. Native builds only (it writes below the stack pointer, beyond
    /// the red zone, inside the thread's own stack mapping).
    #[inline(never)]
    fn measured<R>(f: impl FnOnce() -> R) -> (R, usize) {
        if cfg!(miri) || !MEASURE.load(std::sync::atomic::Ordering::Relaxed) {
            return (f(), 0);
        }
        let marker = 0u8;
        let top = (&marker as *const u8 as usize) - 1024; // leave this frame and the red zone alone
        let bottom = top - PAINT;
        unsafe {
            let mut p = bottom;
            while p < top {
                std::ptr::write_volatile(p as *mut u8, PATTERN);
                p += 1;
            }
        }
        let r = f();
        let mut used = 0;
        unsafe {
            let mut p = bottom;
            while p < top {
                if std::ptr::read_volatile(p as *const u8) != PATTERN {
                    used = top - p + 1024;
                    break;
                }
                p += 1;
            }
        }
        (r, used)
    }

    pub fn run<R: Send + 'static>(f: impl Fn() -> R + Send + Sync + 'static) -> ThreadRun<R> {
        let f = std::sync::Arc::new(f);
        let (tx, rx) = mpsc::channel::<R>();
        let (btx, brx) = mpsc::channel::<(R, usize)>();
        let h = std::thread::Builder::new()
            .stack_size(STACK)
            .spawn({
                let f = f.clone();
                move || {
                    let (f1, tx1) = (f.clone(), tx.clone());
                    BEFORE.with(|g| g.borrow_mut().0 = Some(Box::new(move || drop(tx1.send(f1())))));
                    let (r, used) = measured(|| f());
                    let _ = btx.send((r, used));
                    let (f2, tx2) = (f.clone(), tx.clone());
                    AFTER.with(|g| g.borrow_mut().0 = Some(Box::new(move || drop(tx2.send(f2())))));
                }
            })
            .expect("spawn");
        let _ = h.join();
        let (body, stack_used) = match brx.try_recv() {
            Ok((r, u)) => (Some(r), u),
            Err(_) => (None, 0),
        };
        ThreadRun { body, teardown: rx.try_iter().collect(), stack_used }
    }
}
