//! Conversion between the crate's public value types and the reference model, using only the
//! crate's public API (public fields, `From` impls, constructors). Enumerated values are mapped
//! by *variant name* to the RFC number taken from the reference tables, so the crate's own
//! numbering is never trusted.

use crate::spec::model::*;
use crate::spec::tables;
use rl2tp::avp::types::{self as t, result_code as rc};
use rl2tp::avp::AVP;
use rl2tp::common::{DecodeError, SliceReader};
use rl2tp::{ControlMessage, DataMessage, Message, ValidateReserved, ValidateUnused, ValidateVersion, ValidationOptions};
use std::borrow::Borrow;

pub fn opts(o: SOpts) -> ValidationOptions {
    ValidationOptions {
        reserved: if o.reserved { ValidateReserved::Yes } else { ValidateReserved::No },
        version: if o.version { ValidateVersion::Yes } else { ValidateVersion::No },
        unused: if o.unused { ValidateUnused::Yes } else { ValidateUnused::No },
    }
}

fn code_by_name(table: &[(u16, &str)], name: &str) -> u16 {
    table.iter().find(|(_, n)| *n == name).map(|(c, _)| *c).unwrap_or_else(|| panic!("glue: name {} not in RFC table", name))
}

pub fn message_type_code(m: &t::MessageType) -> u16 {
    code_by_name(&tables::MESSAGE_TYPES, &format!("{:?}", m))
}
pub fn error_type_code(e: &rc::ErrorType) -> u16 {
    code_by_name(&tables::ERROR_TYPES, &format!("{:?}", e))
}
pub fn proxy_type_code(p: &t::ProxyAuthenType) -> u16 {
    code_by_name(&tables::PROXY_AUTHEN_TYPES, &format!("{:?}", p))
}

pub fn message_type_from_code(c: u16) -> Option<t::MessageType> {
    use t::MessageType::*;
    Some(match c {
        1 => StartControlConnectionRequest,
        2 => StartControlConnectionReply,
        3 => StartControlConnectionConnected,
        4 => StopControlConnectionNotification,
        6 => Hello,
        7 => OutgoingCallRequest,
        8 => OutgoingCallReply,
        9 => OutgoingCallConnected,
        10 => IncomingCallRequest,
        11 => IncomingCallReply,
        12 => IncomingCallConnected,
        14 => CallDisconnectNotify,
        15 => WanErrorNotify,
        16 => SetLinkInfo,
        _ => return None,
    })
}
pub fn error_type_from_code(c: u16) -> Option<rc::ErrorType> {
    use rc::ErrorType::*;
    Some(match c {
        0 => Ok,
        1 => NoControlConnectionExists,
        2 => WrongLength,
        3 => OutOfRangeOrBadReserved,
        4 => InsufficientResources,
        5 => InvalidSessionId,
        6 => Generic,
        7 => TryAnotherDestination,
        8 => UnknownMandatoryAvp,
        _ => return None,
    })
}
pub fn proxy_type_from_code(c: u16) -> Option<t::ProxyAuthenType> {
    use t::ProxyAuthenType::*;
    Some(match c {
        0 => Reserved,
        1 => TextualUserNamePasswordExchange,
        2 => PppChap,
        3 => PppPap,
        4 => NoAuthentication,
        5 => MicrosoftChapVersion1,
        _ => return None,
    })
}

/// The private 32-bit word of a bitmask AVP, read from its derived `Debug` output
/// (`Name { data: 192 }`).
pub fn bitmask_word<D: std::fmt::Debug>(v: &D) -> u32 {
    bitmask_word_opt(v).unwrap_or_else(|| panic!("glue: no data field in {:?}", v))
}

fn bitmask_word_opt<D: std::fmt::Debug>(v: &D) -> Option<u32> {
    // only the exact shape of the derived output is trusted: `Name { data: <decimal> }`
    let s = format!("{:?}", v);
    let open = s.find(" { data: ")?;
    if !s[..open].chars().all(|c| c.is_ascii_alphanumeric()) || !s.ends_with(" }") {
        return None;
    }
    let digits = &s[open + 9..s.len() - 2];
    if digits.is_empty() || !digits.chars().all(|c| c.is_ascii_digit()) {
        return None;
    }
    digits.parse().ok()
}

/// The 32-bit word of a bitmask AVP value.
pub fn bitmask_word_avp(a: &AVP) -> u32 {
    match avp_to_spec(a).body {
        SBody::U32(w) => w,
        _ => 0,
    }
}

/// The word of a bitmask AVP: from the derived `Debug` output when it has the usual shape,
/// otherwise (the crate formats these values differently) from the value's own encoding.
fn bitmask_of(a: &AVP, inner: &dyn std::fmt::Debug) -> u32 {
    if let Some(w) = bitmask_word_opt(&inner) {
        return w;
    }
    let mut w = rl2tp::common::VecWriter::new();
    a.write(&mut w);
    if w.data.len() >= 10 {
        u32::from_be_bytes([w.data[6], w.data[7], w.data[8], w.data[9]])
    } else {
        0
    }
}

/// A decoded text member, checked: a `String` holding ill-formed UTF-8 (an unchecked conversion
/// in the decoder) would make every later formatting of it undefined. Where it crosses into the
/// harness it is replaced by a well-formed description of its octets, so the oracles see an
/// accepted value that no reference result can equal (the reference rejects ill-formed text).
fn text(_attr: u16, s: &str) -> String {
    if std::str::from_utf8(s.as_bytes()).is_err() {
        return format!("<ill-formed UTF-8 in a decoded String: {}>", crate::report::hex(&s.as_bytes()[..s.len().min(32)]));
    }
    s.to_owned()
}

fn sa(attr: u16, body: SBody) -> SAvp {
    SAvp { attr, hidden: false, body }
}

pub fn avp_to_spec(a: &AVP) -> SAvp {
    match a {
        AVP::MessageType(m) => sa(0, SBody::U16(message_type_code(m))),
        AVP::ResultCode(r) => sa(
            1,
            SBody::Result {
                code: u16::from(r.code),
                err: r.error.as_ref().map(|e| (error_type_code(&e.error_type), e.error_message.as_ref().map(|m| text(1, m)))),
            },
        ),
        AVP::ProtocolVersion(p) => sa(2, SBody::Version { ver: p.version, rev: p.revision }),
        AVP::FramingCapabilities(x) => sa(3, SBody::U32(bitmask_of(a, x))),
        AVP::BearerCapabilities(x) => sa(4, SBody::U32(bitmask_of(a, x))),
        AVP::TieBreaker(x) => sa(5, SBody::U64(x.value)),
        AVP::FirmwareRevision(x) => sa(6, SBody::U16(x.value)),
        AVP::HostName(x) => sa(7, SBody::Bytes(x.value.clone())),
        AVP::VendorName(x) => sa(8, SBody::Str(text(8, &x.value))),
        AVP::AssignedTunnelId(x) => sa(9, SBody::U16(x.value)),
        AVP::ReceiveWindowSize(x) => sa(10, SBody::U16(x.value)),
        AVP::Challenge(x) => sa(11, SBody::Bytes(x.value.clone())),
        AVP::Q931CauseCode(x) => sa(12, SBody::Q931 { code: x.cause_code, msg: x.cause_msg, adv: x.advisory.as_ref().map(|m| text(12, m)) }),
        AVP::ChallengeResponse(x) => sa(13, SBody::Bytes(x.value.to_vec())),
        AVP::AssignedSessionId(x) => sa(14, SBody::U16(x.value)),
        AVP::CallSerialNumber(x) => sa(15, SBody::U32(x.value)),
        AVP::MinimumBps(x) => sa(16, SBody::U32(x.value)),
        AVP::MaximumBps(x) => sa(17, SBody::U32(x.value)),
        AVP::BearerType(x) => sa(18, SBody::U32(bitmask_of(a, x))),
        AVP::FramingType(x) => sa(19, SBody::U32(bitmask_of(a, x))),
        AVP::CalledNumber(x) => sa(21, SBody::Str(text(21, &x.value))),
        AVP::CallingNumber(x) => sa(22, SBody::Str(text(22, &x.value))),
        AVP::SubAddress(x) => sa(23, SBody::Str(text(23, &x.value))),
        AVP::TxConnectSpeed(x) => sa(24, SBody::U32(x.value)),
        AVP::PhysicalChannelId(x) => sa(25, SBody::Bytes(x.value.to_vec())),
        AVP::InitialReceivedLcpConfReq(x) => sa(26, SBody::Bytes(x.value.clone())),
        AVP::LastSentLcpConfReq(x) => sa(27, SBody::Bytes(x.value.clone())),
        AVP::LastReceivedLcpConfReq(x) => sa(28, SBody::Bytes(x.value.clone())),
        AVP::ProxyAuthenType(x) => sa(29, SBody::U16(proxy_type_code(x))),
        AVP::ProxyAuthenName(x) => sa(30, SBody::Bytes(x.value.clone())),
        AVP::ProxyAuthenChallenge(x) => sa(31, SBody::Bytes(x.value.clone())),
        AVP::ProxyAuthenId(x) => sa(32, SBody::ProxyId(x.value)),
        AVP::ProxyAuthenResponse(x) => sa(33, SBody::Bytes(x.value.clone())),
        AVP::CallErrors(x) => sa(
            34,
            SBody::CallErrors([x.crc_errors, x.framing_errors, x.hardware_overruns, x.buffer_overruns, x.timeout_errors, x.alignment_errors]),
        ),
        AVP::Accm(x) => sa(35, SBody::Accm(x.send_accm, x.receive_accm)),
        AVP::RandomVector(x) => sa(36, SBody::Bytes(x.value.to_vec())),
        AVP::PrivateGroupId(x) => sa(37, SBody::Bytes(x.value.clone())),
        AVP::RxConnectSpeed(x) => sa(38, SBody::U32(x.value)),
        AVP::SequencingRequired(_) => sa(39, SBody::Empty),
        AVP::Hidden(h) => SAvp { attr: h.attribute_type, hidden: true, body: SBody::Bytes(h.value.clone()) },
        // a kind this harness does not know (the crate grew a variant): keep it comparable, and
        // different from every reference value, instead of failing to build
        #[allow(unreachable_patterns)]
        other => SAvp { attr: 0xfffe, hidden: false, body: SBody::Str(format!("unknown AVP variant {:?}", other)) },
    }
}

/// Name of the AVP variant as the crate spells it (first identifier of the `Debug` output).
pub fn avp_variant_name(a: &AVP) -> String {
    let s = format!("{:?}", a);
    s.chars().take_while(|c| c.is_ascii_alphanumeric()).collect()
}

fn word_avp<X>(w: u32, f: impl Fn(&mut SliceReader) -> Result<X, DecodeError>) -> Option<X> {
    let b = w.to_be_bytes();
    let mut r = SliceReader::from(&b);
    f(&mut r).ok()
}

/// Build the crate value for a reference value, through public constructors / fields only.
/// `None` when the crate's types cannot represent the value (unassigned enumerated code,
/// wrong fixed width).
pub fn avp_to_crate(a: &SAvp) -> Option<AVP> {
    if a.hidden {
        if let SBody::Bytes(v) = &a.body {
            return Some(AVP::Hidden(t::Hidden { attribute_type: a.attr, value: v.clone() }));
        }
        return None;
    }
    Some(match (a.attr, &a.body) {
        (0, SBody::U16(c)) => AVP::MessageType(message_type_from_code(*c)?),
        (1, SBody::Result { code, err }) => AVP::ResultCode(t::ResultCode {
            code: rc::CodeValue::from(*code),
            error: match err {
                None => None,
                Some((et, msg)) => Some(rc::Error { error_type: error_type_from_code(*et)?, error_message: msg.clone() }),
            },
        }),
        (2, SBody::Version { ver, rev }) => AVP::ProtocolVersion(t::ProtocolVersion { version: *ver, revision: *rev }),
        // bitmask kinds: private word, constructed through the public per-type decoder
        (3, SBody::U32(w)) => AVP::FramingCapabilities(word_avp(*w, |r| t::FramingCapabilities::try_read(r))?),
        (4, SBody::U32(w)) => AVP::BearerCapabilities(word_avp(*w, |r| t::BearerCapabilities::try_read(r))?),
        (5, SBody::U64(x)) => AVP::TieBreaker(t::TieBreaker { value: *x }),
        (6, SBody::U16(x)) => AVP::FirmwareRevision(t::FirmwareRevision { value: *x }),
        (7, SBody::Bytes(b)) => AVP::HostName(t::HostName { value: b.clone() }),
        (8, SBody::Str(s)) => AVP::VendorName(t::VendorName { value: s.clone() }),
        (9, SBody::U16(x)) => AVP::AssignedTunnelId(t::AssignedTunnelId { value: *x }),
        (10, SBody::U16(x)) => AVP::ReceiveWindowSize(t::ReceiveWindowSize { value: *x }),
        (11, SBody::Bytes(b)) => AVP::Challenge(t::Challenge { value: b.clone() }),
        (12, SBody::Q931 { code, msg, adv }) => AVP::Q931CauseCode(t::Q931CauseCode { cause_code: *code, cause_msg: *msg, advisory: adv.clone() }),
        (13, SBody::Bytes(b)) => AVP::ChallengeResponse(t::ChallengeResponse { value: b.as_slice().try_into().ok()? }),
        (14, SBody::U16(x)) => AVP::AssignedSessionId(t::AssignedSessionId { value: *x }),
        (15, SBody::U32(x)) => AVP::CallSerialNumber(t::CallSerialNumber { value: *x }),
        (16, SBody::U32(x)) => AVP::MinimumBps(t::MinimumBps { value: *x }),
        (17, SBody::U32(x)) => AVP::MaximumBps(t::MaximumBps { value: *x }),
        (18, SBody::U32(w)) => AVP::BearerType(word_avp(*w, |r| t::BearerType::try_read(r))?),
        (19, SBody::U32(w)) => AVP::FramingType(word_avp(*w, |r| t::FramingType::try_read(r))?),
        (21, SBody::Str(s)) => AVP::CalledNumber(t::CalledNumber { value: s.clone() }),
        (22, SBody::Str(s)) => AVP::CallingNumber(t::CallingNumber { value: s.clone() }),
        (23, SBody::Str(s)) => AVP::SubAddress(t::SubAddress { value: s.clone() }),
        (24, SBody::U32(x)) => AVP::TxConnectSpeed(t::TxConnectSpeed { value: *x }),
        (25, SBody::Bytes(b)) => AVP::PhysicalChannelId(t::PhysicalChannelId { value: b.as_slice().try_into().ok()? }),
        (26, SBody::Bytes(b)) => AVP::InitialReceivedLcpConfReq(t::InitialReceivedLcpConfReq { value: b.clone() }),
        (27, SBody::Bytes(b)) => AVP::LastSentLcpConfReq(t::LastSentLcpConfReq { value: b.clone() }),
        (28, SBody::Bytes(b)) => AVP::LastReceivedLcpConfReq(t::LastReceivedLcpConfReq { value: b.clone() }),
        (29, SBody::U16(c)) => AVP::ProxyAuthenType(proxy_type_from_code(*c)?),
        (30, SBody::Bytes(b)) => AVP::ProxyAuthenName(t::ProxyAuthenName { value: b.clone() }),
        (31, SBody::Bytes(b)) => AVP::ProxyAuthenChallenge(t::ProxyAuthenChallenge { value: b.clone() }),
        (32, SBody::ProxyId(x)) => AVP::ProxyAuthenId(t::ProxyAuthenId { value: *x }),
        (33, SBody::Bytes(b)) => AVP::ProxyAuthenResponse(t::ProxyAuthenResponse { value: b.clone() }),
        (34, SBody::CallErrors(c)) => AVP::CallErrors(t::CallErrors {
            crc_errors: c[0],
            framing_errors: c[1],
            hardware_overruns: c[2],
            buffer_overruns: c[3],
            timeout_errors: c[4],
            alignment_errors: c[5],
        }),
        (35, SBody::Accm(s, r)) => AVP::Accm(t::Accm { send_accm: *s, receive_accm: *r }),
        (36, SBody::Bytes(b)) => AVP::RandomVector(t::RandomVector { value: b.as_slice().try_into().ok()? }),
        (37, SBody::Bytes(b)) => AVP::PrivateGroupId(t::PrivateGroupId { value: b.clone() }),
        (38, SBody::U32(x)) => AVP::RxConnectSpeed(t::RxConnectSpeed { value: *x }),
        (39, SBody::Empty) => AVP::SequencingRequired(t::SequencingRequired {}),
        _ => return None,
    })
}

pub fn msg_to_spec<T: Borrow<[u8]>>(m: &Message<T>) -> SMsg {
    match m {
        Message::Control(c) => SMsg::Control(control_to_spec(c)),
        Message::Data(d) => SMsg::Data(SData {
            prio: d.is_prioritized,
            length: d.length,
            tunnel: d.tunnel_id,
            session: d.session_id,
            nsnr: d.ns_nr,
            offset: d.offset,
            data: d.data.borrow().to_vec(),
        }),
    }
}

pub fn control_to_spec(c: &ControlMessage) -> SControl {
    SControl { length: c.length, tunnel: c.tunnel_id, session: c.session_id, ns: c.ns, nr: c.nr, avps: c.avps.iter().map(avp_to_spec).collect() }
}

pub fn msg_to_crate(m: &SMsg) -> Option<Message<Vec<u8>>> {
    Some(match m {
        SMsg::Control(c) => {
            let mut avps = Vec::with_capacity(c.avps.len());
            for a in c.avps.iter() {
                avps.push(avp_to_crate(a)?);
            }
            Message::Control(ControlMessage { length: c.length, tunnel_id: c.tunnel, session_id: c.session, ns: c.ns, nr: c.nr, avps })
        }
        SMsg::Data(d) => Message::Data(DataMessage {
            is_prioritized: d.prio,
            length: d.length,
            tunnel_id: d.tunnel,
            session_id: d.session,
            ns_nr: d.nsnr,
            offset: d.offset,
            data: d.data.clone(),
        }),
    })
}

/// Class of a crate error in the reference's vocabulary, for the properties that compare error
/// identity (C15, C20). `None` for variants the reference has no counterpart for.
pub fn classify(e: &DecodeError) -> Option<SErr> {
    use DecodeError as D;
    Some(match e {
        D::IncompleteAVP(t) => SErr::Incomplete(*t),
        D::UnknownMessageType(c) => SErr::UnknownMessageType(*c),
        D::InvalidUtf8(t) => SErr::BadUtf8(*t),
        D::InvalidResultCodeErrorType(c) => SErr::BadErrorType(*c),
        D::InvalidAVPLength(l) => SErr::AvpLength(*l),
        D::UnknownAvp(t) => SErr::UnknownAvp(*t),
        D::EmptyHiddenAVP => SErr::HiddenEmpty,
        D::MisalignedHiddenAVP => SErr::HiddenMisaligned,
        D::InvalidOriginalAVPLength(l) => SErr::HiddenLength(*l),
        D::UnsupportedVendorId(v) => SErr::Vendor(*v),
        D::InvalidVersion(v) => SErr::InvalidVersion(*v),
        D::InvalidReservedBits => SErr::ReservedBits,
        D::IncompleteFlags => SErr::IncompleteFlags,
        D::InvalidOffset(o) => SErr::DataOffset(*o),
        D::IncompleteDataMessageHeader => SErr::DataHeaderShort,
        D::IncompleteDataMessagePayload => SErr::DataPayloadShort,
        D::EmptyDataMessagePayload => SErr::DataEmpty,
        D::ForbiddenControlMessagePriority => SErr::ControlPriority,
        D::ForbiddenControlMessageOffset => SErr::ControlOffset,
        D::ControlMessageWithoutLength => SErr::ControlNoLength,
        D::ControlMessageWithoutNsNr => SErr::ControlNoNsNr,
        D::IncompleteControlMessageHeader => SErr::ControlHeaderShort,
        D::IncompleteControlMessagePayload => SErr::ControlPayloadShort,
        D::ControlMessageTypeNotFirst => SErr::TypeNotFirst,
        D::AVPReadError(_) | D::MessageReadError => return None,
        #[allow(unreachable_patterns)]
        _ => return None,
    })
}


/// A value that differs in memory but not on the wire: an absent optional text given as
/// `Some("")`. Encoding, measuring and hiding it must give what the canonical value gives.
pub fn noncanonical_twin(a: &AVP) -> Option<AVP> {
    match a {
        AVP::Q931CauseCode(x) if x.advisory.is_none() => {
            let mut y = x.clone();
            y.advisory = Some(String::new());
            Some(AVP::Q931CauseCode(y))
        }
        AVP::ResultCode(r) => match &r.error {
            Some(e) if e.error_message.is_none() => {
                let mut y = r.clone();
                if let Some(e2) = y.error.as_mut() {
                    e2.error_message = Some(String::new());
                }
                Some(AVP::ResultCode(y))
            }
            _ => None,
        },
        _ => None,
    }
}
