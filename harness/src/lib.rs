//! vp-harness: runtime-monitoring harness for rl2tp (see /verif/DESIGN.md).

pub mod exec;
pub mod fuzzjudge;
pub mod gen;
pub mod glue;
pub mod monitor;
pub mod props;
pub mod report;
pub mod selfcheck;
pub mod spec;
