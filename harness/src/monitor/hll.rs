//! Mergeable distinct counter: exact hash list up to a cap, plus a HyperLogLog sketch (p = 14).

pub const P: u32 = 14;
pub const M: usize = 1 << P;

pub struct Distinct {
    pub regs: Vec<u8>,
    pub exact: Vec<u64>,
    pub exact_cap: usize,
    pub overflowed: bool,
}

pub fn mix64(mut x: u64) -> u64 {
    // splitmix64 finaliser
    x ^= x >> 30;
    x = x.wrapping_mul(0xbf58476d1ce4e5b9);
    x ^= x >> 27;
    x = x.wrapping_mul(0x94d049bb133111eb);
    x ^= x >> 31;
    x
}

pub fn hash_bytes(seed: u64, b: &[u8]) -> u64 {
    // FNV-1a followed by a strong finaliser
    let mut h: u64 = 0xcbf29ce484222325 ^ seed;
    for x in b {
        h ^= *x as u64;
        h = h.wrapping_mul(0x100000001b3);
    }
    mix64(h ^ (b.len() as u64).wrapping_mul(0x9e3779b97f4a7c15))
}

impl Distinct {
    pub fn new(exact_cap: usize) -> Self {
        Distinct { regs: vec![0; M], exact: Vec::new(), exact_cap, overflowed: false }
    }
    pub fn add(&mut self, h: u64) {
        let idx = (h >> (64 - P)) as usize;
        let w = (h << P) | (1 << (P - 1));
        let rho = (w.leading_zeros() + 1) as u8;
        if rho > self.regs[idx] {
            self.regs[idx] = rho;
        }
        if !self.overflowed {
            if self.exact.len() < self.exact_cap {
                self.exact.push(h);
            } else {
                self.overflowed = true;
                self.exact = Vec::new();
            }
        }
    }
    /// Sparse text form "idx:val,idx:val,..." (cheap to produce under an interpreter).
    pub fn regs_hex(&self) -> String {
        const D: &[u8; 10] = b"0123456789";
        fn push_num(s: &mut String, mut n: usize) {
            let mut buf = [0u8; 8];
            let mut k = 0;
            loop {
                buf[k] = D[n % 10];
                k += 1;
                n /= 10;
                if n == 0 {
                    break;
                }
            }
            while k > 0 {
                k -= 1;
                s.push(buf[k] as char);
            }
        }
        let mut s = String::new();
        for (i, r) in self.regs.iter().enumerate() {
            if *r != 0 {
                if !s.is_empty() {
                    s.push(',');
                }
                push_num(&mut s, i);
                s.push(':');
                push_num(&mut s, *r as usize);
            }
        }
        s
    }
}
