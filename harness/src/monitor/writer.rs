//! M2: recording writer. Mirrors a plain `Vec<u8>` and logs every append and positional overwrite.

use rl2tp::common::Writer;

#[derive(Clone, Debug, PartialEq, Eq)]
pub enum WEvent {
    Append { at: usize, n: usize },
    Overwrite { off: usize, n: usize, len_before: usize },
}

#[derive(Debug, Default)]
pub struct RecordingWriter {
    pub data: Vec<u8>,
    pub events: Vec<WEvent>,
    pub len_calls: u64,
    /// overwrites that were outside the data written so far (the mirror refuses them by
    /// panicking exactly like a plain slice copy would)
    pub oob_overwrites: u64,
}

impl RecordingWriter {
    pub fn new() -> Self {
        Default::default()
    }
    pub fn with_prefix(p: &[u8]) -> Self {
        RecordingWriter { data: p.to_vec(), ..Default::default() }
    }
    fn app(&mut self, b: &[u8]) {
        self.events.push(WEvent::Append { at: self.data.len(), n: b.len() });
        self.data.extend_from_slice(b);
    }
}

impl Writer for RecordingWriter {
    fn is_empty(&self) -> bool {
        self.data.is_empty()
    }
    fn len(&self) -> usize {
        self.data.len()
    }
    fn write_bytes(&mut self, bytes: &[u8]) {
        self.app(bytes);
    }
    fn write_bytes_at(&mut self, bytes: &[u8], offset: usize) {
        self.events.push(WEvent::Overwrite { off: offset, n: bytes.len(), len_before: self.data.len() });
        match offset.checked_add(bytes.len()) {
            Some(e) if e <= self.data.len() => self.data[offset..e].copy_from_slice(bytes),
            _ => {
                self.oob_overwrites += 1;
                panic!("RecordingWriter: overwrite [{}, +{}) outside written data of {} octets", offset, bytes.len(), self.data.len());
            }
        }
    }
    fn write_u8(&mut self, value: u8) {
        self.app(&[value]);
    }
    fn write_u16_be(&mut self, value: u16) {
        self.app(&value.to_be_bytes());
    }
    fn write_u32_be(&mut self, value: u32) {
        self.app(&value.to_be_bytes());
    }
    fn write_u64_be(&mut self, value: u64) {
        self.app(&value.to_be_bytes());
    }
}
