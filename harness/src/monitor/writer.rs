//! M2: recording writer. Mirrors a plain `Vec<u8>` and logs every append and positional overwrite.

use rl2tp::common::Writer;

#[derive(Clone, Debug, PartialEq, Eq)]
pub enum WEvent {
    Append { at: usize, n: usize },
    Overwrite { off: usize, n: usize, len_before: usize },
}

#[derive(Debug, Default)]
pub struct RecordingWriter {
    pub data: Vec<u8>,
    pub events: Vec<WEvent>,
    pub len_calls: u64,
    /// overwrites that were outside the data written so far (the mirror refuses them by
    /// panicking exactly like a plain slice copy would)
    pub oob_overwrites: u64,
}

impl RecordingWriter {
    pub fn new() -> Self {
        Default::default()
    }
    pub fn with_prefix(p: &[u8]) -> Self {
        RecordingWriter { data: p.to_vec(), ..Default::default() }
    }
    fn app(&mut self, b: &[u8]) {
        self.events.push(WEvent::Append { at: self.data.len(), n: b.len() });
        self.data.extend_from_slice(b);
    }
}

impl Writer for RecordingWriter {
    fn is_empty(&self) -> bool {
        self.data.is_empty()
    }
    fn len(&self) -> usize {
        self.data.len()
    }
    fn write_bytes(&mut self, bytes: &[u8]) {
        self.app(bytes);
    }
    fn write_bytes_at(&mut self, bytes: &[u8], offset: usize) {
        self.events.push(WEvent::Overwrite { off: offset, n: bytes.len(), len_before: self.data.len() });
        match offset.checked_add(bytes.len()) {
            Some(e) if e <= self.data.len() => self.data[offset..e].copy_from_slice(bytes),
            _ => {
                self.oob_overwrites += 1;
                panic!("RecordingWriter: overwrite [{}, +{}) outside written data of {} octets", offset, bytes.len(), self.data.len());
            }
        }
    }
    fn write_u8(&mut self, value: u8) {
        self.app(&[value]);
    }
    fn write_u16_be(&mut self, value: u16) {
        self.app(&value.to_be_bytes());
    }
    fn write_u32_be(&mut self, value: u32) {
        self.app(&value.to_be_bytes());
    }
    fn write_u64_be(&mut self, value: u64) {
        self.app(&value.to_be_bytes());
    }
}

/// A conforming `Writer` whose positions do not start at zero: it stands for the tail of a long
/// stream that already holds `base` octets (a capture file, a ring buffer window). `len()` reports
/// `base + written`, overwrites address absolute positions. Nothing in the trait says positions
/// fit 16 or 32 bits.
#[derive(Debug, Default)]
pub struct OffsetWriter {
    pub base: usize,
    pub data: Vec<u8>,
    pub events: Vec<WEvent>,
    /// when set, an overwrite outside the window is dropped (and counted) instead of refused by
    /// panic: what a tail-only sink does with a position it no longer holds
    pub lenient: bool,
    pub dropped_overwrites: u64,
}

impl OffsetWriter {
    pub fn new(base: usize) -> Self {
        OffsetWriter { base, data: Vec::new(), events: Vec::new(), lenient: false, dropped_overwrites: 0 }
    }
    fn app(&mut self, b: &[u8]) {
        self.events.push(WEvent::Append { at: self.base + self.data.len(), n: b.len() });
        self.data.extend_from_slice(b);
    }
}

impl Writer for OffsetWriter {
    fn is_empty(&self) -> bool {
        self.base == 0 && self.data.is_empty()
    }
    fn len(&self) -> usize {
        self.base + self.data.len()
    }
    fn write_bytes(&mut self, bytes: &[u8]) {
        self.app(bytes);
    }
    fn write_bytes_at(&mut self, bytes: &[u8], offset: usize) {
        self.events.push(WEvent::Overwrite { off: offset, n: bytes.len(), len_before: self.base + self.data.len() });
        let ok = offset >= self.base && offset.checked_add(bytes.len()).map(|e| e <= self.base + self.data.len()).unwrap_or(false);
        if !ok {
            if self.lenient {
                self.dropped_overwrites += 1;
                return;
            }
            panic!("OffsetWriter: overwrite [{}, +{}) outside the window [{}, {})", offset, bytes.len(), self.base, self.base + self.data.len());
        }
        let o = offset - self.base;
        self.data[o..o + bytes.len()].copy_from_slice(bytes);
    }
    fn write_u8(&mut self, value: u8) {
        self.app(&[value]);
    }
    fn write_u16_be(&mut self, value: u16) {
        self.app(&value.to_be_bytes());
    }
    fn write_u32_be(&mut self, value: u32) {
        self.app(&value.to_be_bytes());
    }
    fn write_u64_be(&mut self, value: u64) {
        self.app(&value.to_be_bytes());
    }
}

/// A conforming `Writer` with a fixed capacity: the trait offers no error channel, so a full
/// writer can only refuse by panicking (fault injection for append paths).
#[derive(Debug, Default)]
pub struct BoundedWriter {
    pub cap: usize,
    pub data: Vec<u8>,
}

impl BoundedWriter {
    pub fn new(cap: usize) -> Self {
        BoundedWriter { cap, data: Vec::new() }
    }
    fn app(&mut self, b: &[u8]) {
        if self.data.len() + b.len() > self.cap {
            panic!("BoundedWriter: out of room");
        }
        self.data.extend_from_slice(b);
    }
}

impl Writer for BoundedWriter {
    fn is_empty(&self) -> bool {
        self.data.is_empty()
    }
    fn len(&self) -> usize {
        self.data.len()
    }
    fn write_bytes(&mut self, bytes: &[u8]) {
        self.app(bytes);
    }
    fn write_bytes_at(&mut self, bytes: &[u8], offset: usize) {
        let e = offset.checked_add(bytes.len()).filter(|e| *e <= self.data.len()).expect("BoundedWriter: overwrite outside data");
        self.data[offset..e].copy_from_slice(bytes);
    }
    fn write_u8(&mut self, value: u8) {
        self.app(&[value]);
    }
    fn write_u16_be(&mut self, value: u16) {
        self.app(&value.to_be_bytes());
    }
    fn write_u32_be(&mut self, value: u32) {
        self.app(&value.to_be_bytes());
    }
    fn write_u64_be(&mut self, value: u64) {
        self.app(&value.to_be_bytes());
    }
}


/// A conforming `Writer` that keeps nothing but the number of octets appended (for values too
/// large to store twice). Overwrites inside what was appended are accepted and forgotten.
#[derive(Debug, Default)]
pub struct NullWriter {
    pub len: usize,
    pub overwrites: Vec<(usize, Vec<u8>)>,
    pub head: Vec<u8>,
}

impl NullWriter {
    fn app(&mut self, b: &[u8]) {
        if self.head.len() < 64 {
            let k = (64 - self.head.len()).min(b.len());
            self.head.extend_from_slice(&b[..k]);
        }
        self.len += b.len();
    }
}

impl Writer for NullWriter {
    fn is_empty(&self) -> bool {
        self.len == 0
    }
    fn len(&self) -> usize {
        self.len
    }
    fn write_bytes(&mut self, bytes: &[u8]) {
        self.app(bytes);
    }
    fn write_bytes_at(&mut self, bytes: &[u8], offset: usize) {
        if offset.checked_add(bytes.len()).map(|e| e > self.len).unwrap_or(true) {
            panic!("NullWriter: overwrite [{}, +{}) outside the {} octets written", offset, bytes.len(), self.len);
        }
        if offset < self.head.len() {
            let k = (self.head.len() - offset).min(bytes.len());
            self.head[offset..offset + k].copy_from_slice(&bytes[..k]);
        }
        if self.overwrites.len() < 16 {
            self.overwrites.push((offset, bytes.to_vec()));
        }
    }
    fn write_u8(&mut self, value: u8) {
        self.app(&[value]);
    }
    fn write_u16_be(&mut self, value: u16) {
        self.app(&value.to_be_bytes());
    }
    fn write_u32_be(&mut self, value: u32) {
        self.app(&value.to_be_bytes());
    }
    fn write_u64_be(&mut self, value: u64) {
        self.app(&value.to_be_bytes());
    }
}
