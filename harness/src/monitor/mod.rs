pub mod alloc;
pub mod hll;
pub mod panic;
pub mod reader;
pub mod writer;
