//! M1: contract-checking readers. They implement the crate's public `Reader<T>` trait over a
//! private copy of the input and log every request together with the octets that remained.

use rl2tp::common::Reader;
use std::cell::RefCell;
use std::marker::PhantomData;
use std::rc::Rc;

#[derive(Clone, Copy, Debug, PartialEq, Eq)]
pub enum Op {
    Len,
    IsEmpty,
    U8,
    U16,
    U32,
    U64,
    Skip,
    Sub,
    Bytes,
}

pub const OP_NAMES: [&str; 9] = ["len", "is_empty", "u8", "u16", "u32", "u64", "skip", "sub", "bytes"];

#[derive(Clone, Debug)]
pub struct Breach {
    pub seq: u64,
    pub op: Op,
    pub requested: usize,
    pub remaining: usize,
    /// absolute offset in the input at which the request was made
    pub at: usize,
}

/// Marker payload used when the step budget is exhausted.
pub struct StepBudgetExceeded;

#[derive(Debug, Default)]
pub struct RLog {
    pub calls: u64,
    pub by_op: [u64; 9],
    pub breaches: Vec<Breach>,
    pub budget: u64,
    /// `bytes(n)` requests with n > remaining (legal checked path)
    pub bytes_refused: u64,
    /// sub-readers created
    pub subs: u64,
    /// total octets handed out through fixed-width reads / bytes()
    pub octets_read: u64,
    /// reader calls made while a `T` handed out earlier (a `WipingBuf` lease) was still alive
    pub calls_with_live_lease: u64,
}

impl RLog {
    pub fn new(input_len: usize) -> Rc<RefCell<RLog>> {
        Rc::new(RefCell::new(RLog { budget: 8 * input_len as u64 + 64, ..Default::default() }))
    }
}

/// How `bytes()` turns octets into the reader's `T`.
pub trait FromOctets<'a>: Sized {
    fn from_octets(s: &'a [u8]) -> Self;
}
impl<'a> FromOctets<'a> for &'a [u8] {
    fn from_octets(s: &'a [u8]) -> Self {
        s
    }
}
impl<'a> FromOctets<'a> for Vec<u8> {
    fn from_octets(s: &'a [u8]) -> Self {
        s.to_vec()
    }
}

pub struct ContractReader<'a, T> {
    data: &'a [u8],
    pos: usize,
    end: usize,
    log: Rc<RefCell<RLog>>,
    _t: PhantomData<T>,
}

impl<'a, T> ContractReader<'a, T> {
    pub fn new(data: &'a [u8], log: Rc<RefCell<RLog>>) -> Self {
        ContractReader { data, pos: 0, end: data.len(), log, _t: PhantomData }
    }
    pub fn remaining(&self) -> usize {
        self.end - self.pos
    }
    pub fn position(&self) -> usize {
        self.pos
    }

    fn note(&self, op: Op) {
        let mut l = self.log.borrow_mut();
        l.calls += 1;
        if LIVE_LEASES.with(|c| c.get()) > 0 {
            l.calls_with_live_lease += 1;
        }
        l.by_op[op as usize] += 1;
        if l.calls > l.budget {
            drop(l);
            std::panic::panic_any(StepBudgetExceeded);
        }
    }

    /// Check an unchecked-precondition request; returns the number of octets that may be taken.
    fn demand(&self, op: Op, n: usize) -> usize {
        self.note(op);
        let rem = self.end - self.pos;
        if n > rem {
            let mut l = self.log.borrow_mut();
            let seq = l.calls;
            if l.breaches.len() < 16 {
                l.breaches.push(Breach { seq, op, requested: n, remaining: rem, at: self.pos });
            }
            rem
        } else {
            n
        }
    }

    fn fixed<const N: usize>(&mut self, op: Op) -> [u8; N] {
        let k = self.demand(op, N);
        let mut out = [0u8; N];
        out[..k].copy_from_slice(&self.data[self.pos..self.pos + k]);
        self.pos += k;
        self.log.borrow_mut().octets_read += k as u64;
        out
    }
}

impl<'a, T: FromOctets<'a>> Reader<T> for ContractReader<'a, T> {
    fn is_empty(&self) -> bool {
        self.note(Op::IsEmpty);
        self.pos == self.end
    }
    fn len(&self) -> usize {
        self.note(Op::Len);
        self.end - self.pos
    }
    fn subreader(&mut self, length: usize) -> Self {
        let k = self.demand(Op::Sub, length);
        self.log.borrow_mut().subs += 1;
        let sub = ContractReader { data: self.data, pos: self.pos, end: self.pos + k, log: self.log.clone(), _t: PhantomData };
        self.pos += k;
        sub
    }
    fn bytes(&mut self, length: usize) -> Option<T> {
        self.note(Op::Bytes);
        let rem = self.end - self.pos;
        if length > rem {
            self.log.borrow_mut().bytes_refused += 1;
            return None;
        }
        let s = &self.data[self.pos..self.pos + length];
        self.pos += length;
        self.log.borrow_mut().octets_read += length as u64;
        Some(T::from_octets(s))
    }
    unsafe fn read_u8_unchecked(&mut self) -> u8 {
        self.fixed::<1>(Op::U8)[0]
    }
    unsafe fn read_u16_be_unchecked(&mut self) -> u16 {
        u16::from_be_bytes(self.fixed::<2>(Op::U16))
    }
    unsafe fn read_u32_be_unchecked(&mut self) -> u32 {
        u32::from_be_bytes(self.fixed::<4>(Op::U32))
    }
    unsafe fn read_u64_be_unchecked(&mut self) -> u64 {
        u64::from_be_bytes(self.fixed::<8>(Op::U64))
    }
    fn skip_bytes(&mut self, length: usize) {
        let k = self.demand(Op::Skip, length);
        self.pos += k;
    }
}

/// A reader whose backing store is not contiguous: the input is kept in chunks of a few octets
/// and `bytes()` assembles a fresh `Vec`. Exposes any hidden assumption that results borrow from,
/// or are adjacent in, one buffer. Same contract checks as `ContractReader`.
pub struct SegmentedReader {
    chunks: Rc<Vec<Vec<u8>>>,
    chunk_len: usize,
    pos: usize,
    end: usize,
    log: Rc<RefCell<RLog>>,
}

impl SegmentedReader {
    pub fn new(data: &[u8], chunk_len: usize, log: Rc<RefCell<RLog>>) -> Self {
        let chunk_len = chunk_len.max(1);
        let chunks: Vec<Vec<u8>> = data.chunks(chunk_len).map(|c| c.to_vec()).collect();
        SegmentedReader { chunks: Rc::new(chunks), chunk_len, pos: 0, end: data.len(), log }
    }
    pub fn remaining(&self) -> usize {
        self.end - self.pos
    }
    fn at(&self, i: usize) -> u8 {
        self.chunks[i / self.chunk_len][i % self.chunk_len]
    }
    fn note(&self, op: Op) {
        let mut l = self.log.borrow_mut();
        l.calls += 1;
        if LIVE_LEASES.with(|c| c.get()) > 0 {
            l.calls_with_live_lease += 1;
        }
        l.by_op[op as usize] += 1;
        if l.calls > l.budget {
            drop(l);
            std::panic::panic_any(StepBudgetExceeded);
        }
    }
    fn demand(&self, op: Op, n: usize) -> usize {
        self.note(op);
        let rem = self.end - self.pos;
        if n > rem {
            let mut l = self.log.borrow_mut();
            let seq = l.calls;
            if l.breaches.len() < 16 {
                l.breaches.push(Breach { seq, op, requested: n, remaining: rem, at: self.pos });
            }
            rem
        } else {
            n
        }
    }
    fn fixed<const N: usize>(&mut self, op: Op) -> [u8; N] {
        let k = self.demand(op, N);
        let mut out = [0u8; N];
        for i in 0..k {
            out[i] = self.at(self.pos + i);
        }
        self.pos += k;
        self.log.borrow_mut().octets_read += k as u64;
        out
    }
}

impl Reader<Vec<u8>> for SegmentedReader {
    fn is_empty(&self) -> bool {
        self.note(Op::IsEmpty);
        self.pos == self.end
    }
    fn len(&self) -> usize {
        self.note(Op::Len);
        self.end - self.pos
    }
    fn subreader(&mut self, length: usize) -> Self {
        let k = self.demand(Op::Sub, length);
        self.log.borrow_mut().subs += 1;
        let sub = SegmentedReader { chunks: self.chunks.clone(), chunk_len: self.chunk_len, pos: self.pos, end: self.pos + k, log: self.log.clone() };
        self.pos += k;
        sub
    }
    fn bytes(&mut self, length: usize) -> Option<Vec<u8>> {
        self.note(Op::Bytes);
        let rem = self.end - self.pos;
        if length > rem {
            self.log.borrow_mut().bytes_refused += 1;
            return None;
        }
        let v: Vec<u8> = (0..length).map(|i| self.at(self.pos + i)).collect();
        self.pos += length;
        self.log.borrow_mut().octets_read += length as u64;
        Some(v)
    }
    unsafe fn read_u8_unchecked(&mut self) -> u8 {
        self.fixed::<1>(Op::U8)[0]
    }
    unsafe fn read_u16_be_unchecked(&mut self) -> u16 {
        u16::from_be_bytes(self.fixed::<2>(Op::U16))
    }
    unsafe fn read_u32_be_unchecked(&mut self) -> u32 {
        u32::from_be_bytes(self.fixed::<4>(Op::U32))
    }
    unsafe fn read_u64_be_unchecked(&mut self) -> u64 {
        u64::from_be_bytes(self.fixed::<8>(Op::U64))
    }
    fn skip_bytes(&mut self, length: usize) {
        let k = self.demand(Op::Skip, length);
        self.pos += k;
    }
}

/// A borrowing reader over two separate segments (a ring buffer that wrapped): fixed-width reads,
/// skips and sub-readers work across the seam, but `bytes()` cannot hand out one contiguous slice
/// that straddles it and returns `None` there although enough octets remain. That is within the
/// letter of the trait ("attempt to read"), so the *results* through this reader are not compared
/// with anything; it exists to drive the codec down its "bytes() refused" paths while the
/// process-level monitors watch.
pub struct SeamReader<'a> {
    a: &'a [u8],
    b: &'a [u8],
    pos: usize,
    end: usize,
}

impl<'a> SeamReader<'a> {
    pub fn new(a: &'a [u8], b: &'a [u8]) -> Self {
        SeamReader { a, b, pos: 0, end: a.len() + b.len() }
    }
    fn at(&self, i: usize) -> u8 {
        if i < self.a.len() {
            self.a[i]
        } else {
            self.b[i - self.a.len()]
        }
    }
    fn take<const N: usize>(&mut self) -> [u8; N] {
        let mut out = [0u8; N];
        for (k, o) in out.iter_mut().enumerate() {
            if self.pos + k < self.end {
                *o = self.at(self.pos + k);
            }
        }
        self.pos = (self.pos + N).min(self.end);
        out
    }
}

impl<'a> Reader<&'a [u8]> for SeamReader<'a> {
    fn is_empty(&self) -> bool {
        self.pos == self.end
    }
    fn len(&self) -> usize {
        self.end - self.pos
    }
    fn subreader(&mut self, length: usize) -> Self {
        let k = length.min(self.end - self.pos);
        let s = SeamReader { a: self.a, b: self.b, pos: self.pos, end: self.pos + k };
        self.pos += k;
        s
    }
    fn bytes(&mut self, length: usize) -> Option<&'a [u8]> {
        if length > self.end - self.pos {
            return None;
        }
        let (s, e) = (self.pos, self.pos + length);
        let la = self.a.len();
        let out = if e <= la {
            &self.a[s..e]
        } else if s >= la {
            &self.b[s - la..e - la]
        } else if length == 0 {
            &self.a[s..s]
        } else {
            return None; // straddles the seam
        };
        self.pos = e;
        Some(out)
    }
    unsafe fn read_u8_unchecked(&mut self) -> u8 {
        self.take::<1>()[0]
    }
    unsafe fn read_u16_be_unchecked(&mut self) -> u16 {
        u16::from_be_bytes(self.take::<2>())
    }
    unsafe fn read_u32_be_unchecked(&mut self) -> u32 {
        u32::from_be_bytes(self.take::<4>())
    }
    unsafe fn read_u64_be_unchecked(&mut self) -> u64 {
        u64::from_be_bytes(self.take::<8>())
    }
    fn skip_bytes(&mut self, length: usize) {
        self.pos = (self.pos + length).min(self.end);
    }
}

/// A conforming owning reader whose data continues with a huge virtual tail of zero octets that
/// takes no memory: the first `real.len()` octets are real, `len()` reports `real.len() + tail`.
/// Lets a message be decoded from the front of a buffer that is (claimed to be) longer than 4 GiB.
pub struct VirtualTailReader {
    real: Rc<Vec<u8>>,
    pos: usize,
    end: usize,
}

impl VirtualTailReader {
    pub fn new(real: &[u8], tail: usize) -> Self {
        VirtualTailReader { real: Rc::new(real.to_vec()), pos: 0, end: real.len() + tail }
    }
    pub fn remaining(&self) -> usize {
        self.end - self.pos
    }
    fn at(&self, i: usize) -> u8 {
        if i < self.real.len() {
            self.real[i]
        } else {
            0
        }
    }
    fn take<const N: usize>(&mut self) -> [u8; N] {
        let mut out = [0u8; N];
        for (k, o) in out.iter_mut().enumerate() {
            if self.pos + k < self.end {
                *o = self.at(self.pos + k);
            }
        }
        self.pos = (self.pos + N).min(self.end);
        out
    }
}

impl Reader<Vec<u8>> for VirtualTailReader {
    fn is_empty(&self) -> bool {
        self.pos == self.end
    }
    fn len(&self) -> usize {
        self.end - self.pos
    }
    fn subreader(&mut self, length: usize) -> Self {
        let k = length.min(self.end - self.pos);
        let s = VirtualTailReader { real: self.real.clone(), pos: self.pos, end: self.pos + k };
        self.pos += k;
        s
    }
    fn bytes(&mut self, length: usize) -> Option<Vec<u8>> {
        if length > self.end - self.pos {
            return None;
        }
        // refuse to materialise absurd requests (the caller only asks for declared lengths)
        if length > (1 << 26) {
            std::panic::panic_any(StepBudgetExceeded);
        }
        let v: Vec<u8> = (0..length).map(|i| self.at(self.pos + i)).collect();
        self.pos += length;
        Some(v)
    }
    unsafe fn read_u8_unchecked(&mut self) -> u8 {
        self.take::<1>()[0]
    }
    unsafe fn read_u16_be_unchecked(&mut self) -> u16 {
        u16::from_be_bytes(self.take::<2>())
    }
    unsafe fn read_u32_be_unchecked(&mut self) -> u32 {
        u32::from_be_bytes(self.take::<4>())
    }
    unsafe fn read_u64_be_unchecked(&mut self) -> u64 {
        u64::from_be_bytes(self.take::<8>())
    }
    fn skip_bytes(&mut self, length: usize) {
        self.pos = (self.pos + length).min(self.end);
    }
}

/// A conforming reader that, on its `trigger`-th call, decodes an unrelated valid control message
/// through its own private reader before answering (an application whose reader pulls from a
/// layered transport that itself speaks the protocol). Nothing in the trait forbids it; the outer
/// decode must not notice.
pub struct ReentrantReader<'a> {
    inner: ContractReader<'a, Vec<u8>>,
    calls: Rc<RefCell<u64>>,
    trigger: u64,
}

impl<'a> ReentrantReader<'a> {
    pub fn new(data: &'a [u8], log: Rc<RefCell<RLog>>, trigger: u64) -> Self {
        ReentrantReader { inner: ContractReader::new(data, log), calls: Rc::new(RefCell::new(0)), trigger }
    }
    pub fn remaining(&self) -> usize {
        self.inner.remaining()
    }
    fn tick(&self) {
        let n = {
            let mut c = self.calls.borrow_mut();
            *c += 1;
            *c
        };
        if n == self.trigger {
            // Hello with one more valid AVP and one undecodable one: both acceptance and error
            // collection are exercised by the nested call
            const NESTED_OK: [u8; 28] = [0x13, 0x20, 0x00, 0x1c, 0, 1, 0, 0, 0, 0, 0, 0, 0x01, 0x08, 0, 0, 0, 0, 0, 6, 0x01, 0x08, 0, 0, 0, 9, 0x12, 0x34];
            const NESTED_ERR: [u8; 28] = [0x13, 0x20, 0x00, 0x1c, 0, 1, 0, 0, 0, 0, 0, 0, 0x01, 0x08, 0, 0, 0, 0, 0, 6, 0x01, 0x08, 0, 0, 0, 0x63, 0x12, 0x34];
            for m in [&NESTED_OK, &NESTED_ERR] {
                let mut r = rl2tp::common::SliceReader::from(&m[..]);
                let _ = rl2tp::Message::<&[u8]>::try_read(&mut r);
            }
        }
    }
}

impl<'a> Reader<Vec<u8>> for ReentrantReader<'a> {
    fn is_empty(&self) -> bool {
        self.tick();
        self.inner.is_empty()
    }
    fn len(&self) -> usize {
        self.tick();
        self.inner.len()
    }
    fn subreader(&mut self, length: usize) -> Self {
        self.tick();
        ReentrantReader { inner: self.inner.subreader(length), calls: self.calls.clone(), trigger: self.trigger }
    }
    fn bytes(&mut self, length: usize) -> Option<Vec<u8>> {
        self.tick();
        self.inner.bytes(length)
    }
    unsafe fn read_u8_unchecked(&mut self) -> u8 {
        self.tick();
        self.inner.read_u8_unchecked()
    }
    unsafe fn read_u16_be_unchecked(&mut self) -> u16 {
        self.tick();
        self.inner.read_u16_be_unchecked()
    }
    unsafe fn read_u32_be_unchecked(&mut self) -> u32 {
        self.tick();
        self.inner.read_u32_be_unchecked()
    }
    unsafe fn read_u64_be_unchecked(&mut self) -> u64 {
        self.tick();
        self.inner.read_u64_be_unchecked()
    }
    fn skip_bytes(&mut self, length: usize) {
        self.tick();
        self.inner.skip_bytes(length)
    }
}

/// An owning buffer type for `Reader<T>`: a lease from a pool that wipes its octets when it is
/// given back (dropped). Whatever the codec wants to keep it must have copied before it lets go
/// of the lease.
pub struct WipingBuf(pub Vec<u8>);

thread_local! {
    /// `WipingBuf` leases alive on this thread (no destructor: a plain counter)
    static LIVE_LEASES: std::cell::Cell<usize> = const { std::cell::Cell::new(0) };
}
pub fn reset_live_leases() {
    LIVE_LEASES.with(|c| c.set(0));
}

impl std::borrow::Borrow<[u8]> for WipingBuf {
    fn borrow(&self) -> &[u8] {
        &self.0
    }
}

impl Drop for WipingBuf {
    fn drop(&mut self) {
        for x in self.0.iter_mut() {
            *x = 0;
        }
        // keep the wipe from being optimised away
        std::hint::black_box(&self.0);
        let _ = LIVE_LEASES.try_with(|c| c.set(c.get().saturating_sub(1)));
    }
}

impl<'a> FromOctets<'a> for WipingBuf {
    fn from_octets(s: &'a [u8]) -> Self {
        let _ = LIVE_LEASES.try_with(|c| c.set(c.get() + 1));
        WipingBuf(s.to_vec())
    }
}

/// A conforming owning reader on a live receive queue: at any moment only the first `vis` octets
/// of the stream have arrived, `len()` reports what has arrived and not yet been consumed, and
/// more octets arrive (`per_call` at a time) before each call from call number `start_call` on.
/// Every request is served against what has arrived at that moment; sub-readers are fixed windows.
/// The message being decoded is complete before its decode starts (`deliver_upto`), so what
/// arrives during the decode are only octets behind its declared end.
pub struct LiveQueueReader {
    data: Rc<Vec<u8>>,
    pos: usize,
    vis: std::cell::Cell<usize>,
    top: bool,
    calls: std::cell::Cell<u64>,
    arrivals: std::cell::Cell<u64>,
    start_call: u64,
    per_call: usize,
}

impl LiveQueueReader {
    pub fn new(stream: &[u8], visible: usize, start_call: u64, per_call: usize) -> Self {
        LiveQueueReader {
            data: Rc::new(stream.to_vec()),
            pos: 0,
            vis: std::cell::Cell::new(visible.min(stream.len())),
            top: true,
            calls: Default::default(),
            arrivals: Default::default(),
            start_call,
            per_call,
        }
    }
    /// make sure the first `n` octets of the stream have arrived
    pub fn deliver_upto(&mut self, n: usize) {
        self.vis.set(self.vis.get().max(n.min(self.data.len())));
    }
    /// octets of the whole stream (arrived or not) behind the read position
    pub fn total_remaining(&self) -> usize {
        self.data.len() - self.pos
    }
    /// number of calls before which octets arrived
    pub fn arrivals(&self) -> u64 {
        self.arrivals.get()
    }
    /// octets arrive before the call is served (also before `len()` / `is_empty()`)
    fn arrive(&self) {
        let c = self.calls.get();
        self.calls.set(c + 1);
        if !self.top || c < self.start_call || self.per_call == 0 {
            return;
        }
        let v = self.vis.get();
        if v < self.data.len() {
            self.vis.set((v + self.per_call).min(self.data.len()));
            self.arrivals.set(self.arrivals.get() + 1);
        }
    }
    fn take<const N: usize>(&mut self) -> [u8; N] {
        self.arrive();
        let vis = self.vis.get();
        let mut out = [0u8; N];
        for (k, o) in out.iter_mut().enumerate() {
            if self.pos + k < vis {
                *o = self.data[self.pos + k];
            }
        }
        self.pos = (self.pos + N).min(vis);
        out
    }
}

impl Reader<Vec<u8>> for LiveQueueReader {
    fn is_empty(&self) -> bool {
        self.arrive();
        self.vis.get() == self.pos
    }
    fn len(&self) -> usize {
        self.arrive();
        self.vis.get() - self.pos
    }
    fn subreader(&mut self, length: usize) -> Self {
        self.arrive();
        let k = length.min(self.vis.get() - self.pos);
        let s = LiveQueueReader {
            data: self.data.clone(),
            pos: self.pos,
            vis: std::cell::Cell::new(self.pos + k),
            top: false,
            calls: Default::default(),
            arrivals: Default::default(),
            start_call: 0,
            per_call: 0,
        };
        self.pos += k;
        s
    }
    fn bytes(&mut self, length: usize) -> Option<Vec<u8>> {
        self.arrive();
        if length > self.vis.get() - self.pos {
            return None;
        }
        let v = self.data[self.pos..self.pos + length].to_vec();
        self.pos += length;
        Some(v)
    }
    unsafe fn read_u8_unchecked(&mut self) -> u8 {
        self.take::<1>()[0]
    }
    unsafe fn read_u16_be_unchecked(&mut self) -> u16 {
        u16::from_be_bytes(self.take::<2>())
    }
    unsafe fn read_u32_be_unchecked(&mut self) -> u32 {
        u32::from_be_bytes(self.take::<4>())
    }
    unsafe fn read_u64_be_unchecked(&mut self) -> u64 {
        u64::from_be_bytes(self.take::<8>())
    }
    fn skip_bytes(&mut self, length: usize) {
        self.arrive();
        self.pos = (self.pos + length).min(self.vis.get());
    }
}


/// A conforming owning reader on a slow transport: every `subreader()` / `bytes()` call (also on
/// its sub-readers)
/// takes `delay` of wall-clock time before it is served. The octets and every answer are the same
/// as from a fast reader; only time passes. Results must not depend on it.
pub struct SlowReader {
    data: Rc<Vec<u8>>,
    pos: usize,
    end: usize,
    delay: std::time::Duration,
}

impl SlowReader {
    pub fn new(data: &[u8], delay: std::time::Duration) -> Self {
        SlowReader { data: Rc::new(data.to_vec()), pos: 0, end: data.len(), delay }
    }
    pub fn remaining(&self) -> usize {
        self.end - self.pos
    }
    fn wait(&self) {
        if !self.delay.is_zero() {
            std::thread::sleep(self.delay);
        }
    }
    fn take<const N: usize>(&mut self) -> [u8; N] {
        let mut out = [0u8; N];
        for (k, o) in out.iter_mut().enumerate() {
            if self.pos + k < self.end {
                *o = self.data[self.pos + k];
            }
        }
        self.pos = (self.pos + N).min(self.end);
        out
    }
}

impl Reader<Vec<u8>> for SlowReader {
    fn is_empty(&self) -> bool {
        self.pos == self.end
    }
    fn len(&self) -> usize {
        self.end - self.pos
    }
    fn subreader(&mut self, length: usize) -> Self {
        self.wait();
        let k = length.min(self.end - self.pos);
        let s = SlowReader { data: self.data.clone(), pos: self.pos, end: self.pos + k, delay: self.delay };
        self.pos += k;
        s
    }
    fn bytes(&mut self, length: usize) -> Option<Vec<u8>> {
        self.wait();
        if length > self.end - self.pos {
            return None;
        }
        let v = self.data[self.pos..self.pos + length].to_vec();
        self.pos += length;
        Some(v)
    }
    unsafe fn read_u8_unchecked(&mut self) -> u8 {
        self.take::<1>()[0]
    }
    unsafe fn read_u16_be_unchecked(&mut self) -> u16 {
        u16::from_be_bytes(self.take::<2>())
    }
    unsafe fn read_u32_be_unchecked(&mut self) -> u32 {
        u32::from_be_bytes(self.take::<4>())
    }
    unsafe fn read_u64_be_unchecked(&mut self) -> u64 {
        u64::from_be_bytes(self.take::<8>())
    }
    fn skip_bytes(&mut self, length: usize) {
        self.pos = (self.pos + length).min(self.end);
    }
}
