//! Panic capture: a silent hook records message and location; `catch` runs a closure and
//! classifies the way it ended.

use super::reader::StepBudgetExceeded;
use std::cell::RefCell;
use std::panic::{catch_unwind, AssertUnwindSafe};
use std::sync::Once;

#[derive(Clone, Debug, PartialEq, Eq)]
pub struct PanicInfo {
    pub message: String,
    pub file: String,
    pub line: u32,
}

thread_local! {
    static LAST: RefCell<Option<PanicInfo>> = RefCell::new(None);
}

static HOOK: Once = Once::new();

pub fn install_silent_hook() {
    HOOK.call_once(|| {
        let loud = std::env::var("VP_LOUD").is_ok();
        std::panic::set_hook(Box::new(move |info| {
            if loud {
                eprintln!("VP_LOUD panic: {}", info);
            }
            let message = if let Some(s) = info.payload().downcast_ref::<&str>() {
                s.to_string()
            } else if let Some(s) = info.payload().downcast_ref::<String>() {
                s.clone()
            } else if info.payload().downcast_ref::<StepBudgetExceeded>().is_some() {
                "<step budget exceeded>".to_string()
            } else {
                "<non-string panic payload>".to_string()
            };
            let (file, line) = match info.location() {
                Some(l) => (l.file().to_string(), l.line()),
                None => ("?".to_string(), 0),
            };
            if message.contains("unsafe precondition") || message.contains("cannot unwind") {
                // the process is about to abort (unsafe-precondition check, panic in a no-unwind
                // context): this is the only chance to say why; the supervisor reads it
                eprintln!("VP-ABORT non-unwinding panic: {} at {}:{}", message, file, line);
            }
            // try_with: a panic raised while the thread's locals are being torn down must not make
            // the hook itself panic
            let _ = LAST.try_with(|c| *c.borrow_mut() = Some(PanicInfo { message, file, line }));
        }));
    });
}

pub enum Ended<T> {
    Returned(T),
    Panicked(PanicInfo),
    StepBudget,
}

pub fn catch<T>(f: impl FnOnce() -> T) -> Ended<T> {
    let _ = LAST.try_with(|c| *c.borrow_mut() = None);
    super::alloc::enter_codec();
    let r = catch_unwind(AssertUnwindSafe(f));
    super::alloc::leave_codec();
    match r {
        Ok(v) => Ended::Returned(v),
        Err(payload) => {
            if payload.downcast_ref::<StepBudgetExceeded>().is_some() {
                return Ended::StepBudget;
            }
            let from_payload = || {
                let message = if let Some(s) = payload.downcast_ref::<&str>() {
                    s.to_string()
                } else if let Some(s) = payload.downcast_ref::<String>() {
                    s.clone()
                } else {
                    "<unknown>".to_string()
                };
                PanicInfo { message, file: "?".into(), line: 0 }
            };
            let info = LAST.try_with(|c| c.borrow_mut().take()).ok().flatten().unwrap_or_else(from_payload);
            Ended::Panicked(info)
        }
    }
}

impl PanicInfo {
    /// Stable class of the panic: file with any absolute prefix stripped, and the message with
    /// digits collapsed so that "index 9 out of range for slice of length 3" and its siblings
    /// share one signature.
    pub fn class(&self) -> String {
        let file = match self.file.find("/src/") {
            Some(i) if self.file.starts_with('/') => &self.file[i + 1..],
            _ => &self.file[..],
        };
        let mut msg = String::new();
        let mut last_digit = false;
        for ch in self.message.chars().take(80) {
            if ch.is_ascii_digit() {
                if !last_digit {
                    msg.push('N');
                }
                last_digit = true;
            } else {
                msg.push(ch);
                last_digit = false;
            }
        }
        format!("{}:{}", file, msg)
    }
}
