//! M5: counting global allocator. Counts live blocks / bytes; tracking can be switched off
//! (leak-sensitive sanitizer runs) and is off by default.

use std::alloc::{GlobalAlloc, Layout, System};
use std::sync::atomic::{AtomicBool, AtomicI64, AtomicU64, Ordering};

pub struct CountingAlloc;

static TRACK: AtomicBool = AtomicBool::new(false);
static LIVE_BLOCKS: AtomicI64 = AtomicI64::new(0);
static LIVE_BYTES: AtomicI64 = AtomicI64::new(0);
static TOTAL_ALLOCS: AtomicU64 = AtomicU64::new(0);

// Allocation-failure injection (fault enumeration): while a codec call is running (CODEC_DEPTH > 0)
// the FAIL_COUNTDOWN-th allocation request is refused once. A codec that cannot get memory must
// fail loudly (std aborts the process for `Vec::push` and friends); what it must not do is carry on
// and return a different answer.
static FAIL_COUNTDOWN: AtomicI64 = AtomicI64::new(-1);
static CODEC_DEPTH: AtomicI64 = AtomicI64::new(0);
static FAIL_FIRED: AtomicBool = AtomicBool::new(false);

pub fn arm_failure(nth: i64) {
    FAIL_FIRED.store(false, Ordering::SeqCst);
    FAIL_COUNTDOWN.store(nth, Ordering::SeqCst);
}
pub fn failure_fired() -> bool {
    FAIL_FIRED.load(Ordering::SeqCst)
}
pub fn enter_codec() {
    CODEC_DEPTH.fetch_add(1, Ordering::SeqCst);
}
pub fn leave_codec() {
    CODEC_DEPTH.fetch_sub(1, Ordering::SeqCst);
}

#[inline]
fn refuse_now() -> bool {
    if FAIL_COUNTDOWN.load(Ordering::Relaxed) > 0 && CODEC_DEPTH.load(Ordering::Relaxed) > 0 {
        if FAIL_COUNTDOWN.fetch_sub(1, Ordering::SeqCst) == 1 {
            FAIL_FIRED.store(true, Ordering::SeqCst);
            return true;
        }
    }
    false
}

/// With the `odd_alloc` feature every align-1 request (byte buffers: `Vec<u8>`, `String`) is
/// served one octet into an 8-aligned block, i.e. at an odd address. Perfectly legal for an
/// allocator; code that assumes heap byte buffers are word aligned is not.
const ODD: bool = cfg!(feature = "odd_alloc");

#[inline]
fn odd(l: &Layout) -> Option<Layout> {
    if ODD && l.align() == 1 && l.size() > 0 {
        Layout::from_size_align(l.size() + 8, 8).ok()
    } else {
        None
    }
}

unsafe impl GlobalAlloc for CountingAlloc {
    unsafe fn alloc(&self, l: Layout) -> *mut u8 {
        if refuse_now() {
            return std::ptr::null_mut();
        }
        if let Some(big) = odd(&l) {
            let p = System.alloc(big);
            if p.is_null() {
                return p;
            }
            if TRACK.load(Ordering::Relaxed) {
                LIVE_BLOCKS.fetch_add(1, Ordering::Relaxed);
                LIVE_BYTES.fetch_add(l.size() as i64, Ordering::Relaxed);
                TOTAL_ALLOCS.fetch_add(1, Ordering::Relaxed);
            }
            return p.add(1);
        }
        let p = System.alloc(l);
        if !p.is_null() && TRACK.load(Ordering::Relaxed) {
            LIVE_BLOCKS.fetch_add(1, Ordering::Relaxed);
            LIVE_BYTES.fetch_add(l.size() as i64, Ordering::Relaxed);
            TOTAL_ALLOCS.fetch_add(1, Ordering::Relaxed);
        }
        p
    }
    unsafe fn alloc_zeroed(&self, l: Layout) -> *mut u8 {
        // forwarded (not alloc + memset): a multi-GiB zeroed vector stays untouched zero pages
        if ODD && l.align() == 1 {
            let p = self.alloc(l);
            if !p.is_null() {
                std::ptr::write_bytes(p, 0, l.size());
            }
            return p;
        }
        if refuse_now() {
            return std::ptr::null_mut();
        }
        let p = System.alloc_zeroed(l);
        if !p.is_null() && TRACK.load(Ordering::Relaxed) {
            LIVE_BLOCKS.fetch_add(1, Ordering::Relaxed);
            LIVE_BYTES.fetch_add(l.size() as i64, Ordering::Relaxed);
            TOTAL_ALLOCS.fetch_add(1, Ordering::Relaxed);
        }
        p
    }
    unsafe fn dealloc(&self, p: *mut u8, l: Layout) {
        if let Some(big) = odd(&l) {
            if TRACK.load(Ordering::Relaxed) {
                LIVE_BLOCKS.fetch_sub(1, Ordering::Relaxed);
                LIVE_BYTES.fetch_sub(l.size() as i64, Ordering::Relaxed);
            }
            return System.dealloc(p.sub(1), big);
        }
        if TRACK.load(Ordering::Relaxed) {
            LIVE_BLOCKS.fetch_sub(1, Ordering::Relaxed);
            LIVE_BYTES.fetch_sub(l.size() as i64, Ordering::Relaxed);
        }
        System.dealloc(p, l)
    }
    unsafe fn realloc(&self, p: *mut u8, l: Layout, new_size: usize) -> *mut u8 {
        if new_size > l.size() && refuse_now() {
            return std::ptr::null_mut();
        }
        if ODD && l.align() == 1 {
            // move through alloc + copy + dealloc so that both ends follow the odd placement
            let nl = Layout::from_size_align_unchecked(new_size, 1);
            let q = if new_size == 0 { std::ptr::null_mut() } else { self.alloc(nl) };
            if !q.is_null() {
                std::ptr::copy_nonoverlapping(p, q, l.size().min(new_size));
                self.dealloc(p, l);
            }
            return q;
        }
        let q = System.realloc(p, l, new_size);
        if !q.is_null() && TRACK.load(Ordering::Relaxed) {
            LIVE_BYTES.fetch_add(new_size as i64 - l.size() as i64, Ordering::Relaxed);
            TOTAL_ALLOCS.fetch_add(1, Ordering::Relaxed);
        }
        q
    }
}

pub fn set_tracking(on: bool) {
    TRACK.store(on, Ordering::SeqCst);
}

#[derive(Clone, Copy, Debug, PartialEq, Eq)]
pub struct Snapshot {
    pub live_blocks: i64,
    pub live_bytes: i64,
    pub total_allocs: u64,
}

pub fn snapshot() -> Snapshot {
    Snapshot {
        live_blocks: LIVE_BLOCKS.load(Ordering::SeqCst),
        live_bytes: LIVE_BYTES.load(Ordering::SeqCst),
        total_allocs: TOTAL_ALLOCS.load(Ordering::SeqCst),
    }
}
