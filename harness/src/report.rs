//! Per-run statistics, violations and a minimal JSON writer (no dependencies).

use crate::monitor::hll::{hash_bytes, Distinct};
use std::collections::BTreeMap;
use std::fmt::Write as _;

#[derive(Clone, Debug)]
pub enum J {
    Null,
    B(bool),
    I(i64),
    U(u64),
    S(String),
    A(Vec<J>),
    O(Vec<(String, J)>),
}

pub fn hex(b: &[u8]) -> String {
    let mut s = String::with_capacity(b.len() * 2);
    for x in b {
        let _ = write!(s, "{:02x}", x);
    }
    s
}

pub fn unhex(s: &str) -> Vec<u8> {
    let s: Vec<u8> = s.bytes().filter(|c| c.is_ascii_hexdigit()).collect();
    s.chunks(2).filter(|c| c.len() == 2).map(|c| u8::from_str_radix(std::str::from_utf8(c).unwrap(), 16).unwrap()).collect()
}

impl J {
    pub fn s(x: impl Into<String>) -> J {
        J::S(x.into())
    }
    pub fn hex(b: &[u8]) -> J {
        // long inputs are abbreviated in samples; replays carry the full octets
        J::S(hex(b))
    }
    pub fn obj(kv: Vec<(&str, J)>) -> J {
        J::O(kv.into_iter().map(|(k, v)| (k.to_string(), v)).collect())
    }
    pub fn write(&self, out: &mut String) {
        match self {
            J::Null => out.push_str("null"),
            J::B(b) => out.push_str(if *b { "true" } else { "false" }),
            J::I(i) => {
                let _ = write!(out, "{}", i);
            }
            J::U(u) => {
                let _ = write!(out, "{}", u);
            }
            J::S(s) => {
                out.push('"');
                for c in s.chars() {
                    match c {
                        '"' => out.push_str("\\\""),
                        '\\' => out.push_str("\\\\"),
                        '\n' => out.push_str("\\n"),
                        '\r' => out.push_str("\\r"),
                        '\t' => out.push_str("\\t"),
                        c if (c as u32) < 0x20 => {
                            let _ = write!(out, "\\u{:04x}", c as u32);
                        }
                        c => out.push(c),
                    }
                }
                out.push('"');
            }
            J::A(a) => {
                out.push('[');
                for (i, x) in a.iter().enumerate() {
                    if i > 0 {
                        out.push(',');
                    }
                    x.write(out);
                }
                out.push(']');
            }
            J::O(o) => {
                out.push('{');
                for (i, (k, v)) in o.iter().enumerate() {
                    if i > 0 {
                        out.push(',');
                    }
                    J::S(k.clone()).write(out);
                    out.push(':');
                    v.write(out);
                }
                out.push('}');
            }
        }
    }
    pub fn to_string(&self) -> String {
        let mut s = String::new();
        self.write(&mut s);
        s
    }
}

#[derive(Clone, Debug)]
pub struct Violation {
    /// stable class of the violation; known findings are keyed on this
    pub signature: String,
    pub stream: String,
    pub idx: u64,
    pub detail: String,
    /// the failing input / call, enough to re-run it by hand
    pub witness: J,
}

pub struct Report {
    pub prop: String,
    pub evaluations: u64,
    pub nontrivial: u64,
    pub distinct: Distinct,
    pub buckets: BTreeMap<String, u64>,
    pub samples: Vec<J>,
    pub sample_cap: usize,
    pub violations: Vec<Violation>,
    pub violation_count: u64,
    pub sig_counts: BTreeMap<String, u64>,
    pub observations: BTreeMap<String, u64>,
    pub truncated: bool,
    pub notes: Vec<String>,
    /// (case index, digest of every result of that case): compared across processes (C19)
    pub digests: Vec<(u64, u64)>,
}

impl Report {
    pub fn new(prop: &str, exact_cap: usize) -> Report {
        Report {
            prop: prop.to_string(),
            evaluations: 0,
            nontrivial: 0,
            distinct: Distinct::new(exact_cap),
            buckets: BTreeMap::new(),
            samples: Vec::new(),
            sample_cap: 6,
            violations: Vec::new(),
            violation_count: 0,
            sig_counts: BTreeMap::new(),
            observations: BTreeMap::new(),
            truncated: false,
            notes: Vec::new(),
            digests: Vec::new(),
        }
    }
    pub fn bucket(&mut self, name: &str) {
        *self.buckets.entry(name.to_string()).or_insert(0) += 1;
    }
    pub fn bucket_n(&mut self, name: &str, n: u64) {
        *self.buckets.entry(name.to_string()).or_insert(0) += n;
    }
    pub fn observe(&mut self, name: &str) {
        *self.observations.entry(name.to_string()).or_insert(0) += 1;
    }
    /// Count one evaluated case; `key` identifies the case for distinct counting and
    /// `nontrivial` says whether it is non-trivial by the property's rule.
    pub fn case(&mut self, key: &[u8], nontrivial: bool) {
        self.evaluations += 1;
        if nontrivial {
            self.nontrivial += 1;
            self.distinct.add(hash_bytes(0x7e57, key));
        }
    }
    pub fn sample(&mut self, j: impl FnOnce() -> J) {
        if self.samples.len() < self.sample_cap {
            self.samples.push(j());
        }
    }
    pub fn violate(&mut self, signature: String, stream: &str, idx: u64, detail: String, witness: J) {
        self.violation_count += 1;
        let c = self.sig_counts.entry(signature.clone()).or_insert(0);
        *c += 1;
        // keep the first two witnesses of each class
        if *c <= 2 && self.violations.len() < 64 {
            self.violations.push(Violation { signature, stream: stream.to_string(), idx, detail, witness });
        }
    }

    pub fn to_json(&self, extra: Vec<(&str, J)>) -> J {
        let map = |m: &BTreeMap<String, u64>| J::O(m.iter().map(|(k, v)| (k.clone(), J::U(*v))).collect());
        let mut kv = vec![
            ("prop", J::s(self.prop.clone())),
            ("evaluations", J::U(self.evaluations)),
            ("nontrivial", J::U(self.nontrivial)),
            ("hll", J::S(self.distinct.regs_hex())),
            ("exact_overflowed", J::B(self.distinct.overflowed)),
            ("exact", J::A(if self.distinct.overflowed { vec![] } else { self.distinct.exact.iter().map(|h| J::S(format!("{:016x}", h))).collect() })),
            ("buckets", map(&self.buckets)),
            ("observations", map(&self.observations)),
            ("samples", J::A(self.samples.clone())),
            ("violation_count", J::U(self.violation_count)),
            ("sig_counts", map(&self.sig_counts)),
            (
                "violations",
                J::A(
                    self.violations
                        .iter()
                        .map(|v| {
                            J::obj(vec![
                                ("signature", J::s(v.signature.clone())),
                                ("stream", J::s(v.stream.clone())),
                                ("idx", J::U(v.idx)),
                                ("detail", J::s(v.detail.clone())),
                                ("witness", v.witness.clone()),
                            ])
                        })
                        .collect(),
                ),
            ),
            ("truncated", J::B(self.truncated)),
            ("notes", J::A(self.notes.iter().take(50).map(|n| J::s(n.clone())).collect())),
            ("digests", J::A(self.digests.iter().map(|(i, d)| J::A(vec![J::U(*i), J::S(format!("{:016x}", d))])).collect())),
        ];
        kv.extend(extra);
        J::obj(kv)
    }
}
