#!/usr/bin/env python3
"""Mutation self-test (DESIGN section 7).

  selftest.py verify <dir-with-A.diff+demo_A.rs..> <A|B> <property> <seed-id>
        confirm a sub-agent's deliverable in a scratch worktree (outside /repo and /verif):
        the existing suite passes with the change, the demo fails with it and passes without;
        on success store it as /verif/seeded/<seed-id>/ (patch.diff, demo.rs, meta.json)
  selftest.py run [<seed-id> ...] [--all-props] [--tier quick]
        for each stored seed: git -C /repo apply, run the check(s) of the property it breaks
        (and with --all-props every other check), git -C /repo checkout -- . ; write
        /verif/selftest/RESULTS.md

Never leaves /repo modified: the patch is reverted in a finally block.
"""
import json
import os
import shutil
import subprocess
import sys
import tempfile
import time

ROOT = os.path.dirname(os.path.abspath(__file__))
REPO = "/repo"
ENV = dict(os.environ, CARGO_NET_OFFLINE="true", CARGO_TERM_COLOR="never")


def sh(cmd, cwd=None, timeout=3600):
    p = subprocess.run(cmd, cwd=cwd, env=ENV, stdout=subprocess.PIPE, stderr=subprocess.STDOUT, timeout=timeout)
    return p.returncode, p.stdout.decode("utf-8", "replace")


def verify(src, which, prop, seed_id, release=False):
    diff = os.path.join(src, "%s.diff" % which)
    demo = os.path.join(src, "demo_%s.rs" % which)
    assert os.path.exists(diff) and os.path.exists(demo), "missing deliverable"
    wt = tempfile.mkdtemp(prefix="seedverify-", dir="/tmp")
    os.rmdir(wt)
    log = []
    try:
        rc, out = sh(["git", "-C", REPO, "worktree", "add", "--detach", wt, "HEAD"])
        assert rc == 0, out
        os.makedirs(os.path.join(wt, "tests"), exist_ok=True)
        shutil.copy(demo, os.path.join(wt, "tests", "demo.rs"))
        prof = ["--release"] if release else []
        # without the change: demo passes
        rc0, out0 = sh(["cargo", "test", "--offline", "--test", "demo"] + prof, cwd=wt)
        log.append("demo without change: rc=%d" % rc0)
        # with the change
        rc, out = sh(["git", "apply", diff], cwd=wt)
        assert rc == 0, "patch does not apply: " + out
        rc1, out1 = sh(["cargo", "test", "--offline", "--test", "demo"] + prof, cwd=wt)
        log.append("demo with change: rc=%d" % rc1)
        os.remove(os.path.join(wt, "tests", "demo.rs"))
        rc2, out2 = sh(["cargo", "test", "--offline", "--workspace", "--no-fail-fast"], cwd=wt)
        passed = sum(int(l.split()[3]) for l in out2.splitlines() if l.startswith("test result:"))
        failed = sum(int(l.split()[5]) for l in out2.splitlines() if l.startswith("test result:"))
        log.append("existing suite with change: rc=%d passed=%d failed=%d" % (rc2, passed, failed))
        ok = rc0 == 0 and rc1 != 0 and rc2 == 0 and failed == 0 and passed >= 98
        print("\n".join(log))
        if not ok:
            print("NOT CONFIRMED")
            print(out1[-1500:] if rc1 == 0 else "")
            print(out0[-1500:] if rc0 != 0 else "")
            print(out2[-1500:] if rc2 != 0 else "")
            return 1
        dst = os.path.join(ROOT, "seeded", seed_id)
        os.makedirs(dst, exist_ok=True)
        shutil.copy(diff, os.path.join(dst, "patch.diff"))
        shutil.copy(demo, os.path.join(dst, "demo.rs"))
        notes = os.path.join(src, "NOTES.md")
        if os.path.exists(notes):
            shutil.copy(notes, os.path.join(dst, "NOTES.agent.md"))
        meta = {
            "seed_id": seed_id,
            "breaks_property": prop,
            "variant": which,
            "needs_to_manifest": "see NOTES.agent.md section %s (written by the sub-agent that produced the change)" % which,
            "confirmed": {
                "base_commit": subprocess.check_output(["git", "-C", REPO, "rev-parse", "--short", "HEAD"]).decode().strip(),
                "commands": [
                    "git worktree add --detach <scratch> HEAD; cp demo.rs <scratch>/tests/demo.rs",
                    "cargo test --offline --test demo%s   (unchanged tree) -> rc %d" % (" --release" if release else "", rc0),
                    "git apply patch.diff; cargo test --offline --test demo%s -> rc %d (fails)" % (" --release" if release else "", rc1),
                    "cargo test --offline --workspace --no-fail-fast (with the change, demo removed) -> rc %d, %d passed, %d failed" % (rc2, passed, failed),
                ],
                "demo_profile": "release" if release else "debug",
            },
        }
        json.dump(meta, open(os.path.join(dst, "meta.json"), "w"), indent=1)
        print("CONFIRMED -> %s" % dst)
        return 0
    finally:
        sh(["git", "-C", REPO, "worktree", "remove", "--force", wt])
        shutil.rmtree(wt, ignore_errors=True)


def repo_clean():
    rc, out = sh(["git", "-C", REPO, "status", "--porcelain"])
    return out.strip() == ""


def run(seed_ids, all_props, tier, extra_props=None):
    seeded = os.path.join(ROOT, "seeded")
    ids = seed_ids or sorted(os.listdir(seeded))
    props = [json.loads(l)["id"] for l in open(os.path.join(ROOT, "properties.jsonl"))]
    results_path = os.path.join(ROOT, "selftest", "results.json")
    results = json.load(open(results_path)) if os.path.exists(results_path) else {}
    for sid in ids:
        d = os.path.join(seeded, sid)
        meta = json.load(open(os.path.join(d, "meta.json")))
        target = meta["breaks_property"]
        assert repo_clean(), "/repo has uncommitted changes; refusing to apply a seed"
        rc, out = sh(["git", "-C", REPO, "apply", os.path.join(d, "patch.diff")])
        if rc != 0:
            print("%s: patch does not apply: %s" % (sid, out))
            results[sid] = {"property": target, "error": "patch does not apply"}
            continue
        res = results.get(sid) if (extra_props and sid in results and "checks" in results[sid]) else {"property": target, "tier": tier, "checks": {}}
        try:
            todo = props if all_props else ([target] if not extra_props else extra_props)
            for p in todo:
                t0 = time.time()
                rc, out = sh([os.path.join(ROOT, "check"), p, tier], cwd=ROOT, timeout=7200)
                classes = [l.strip()[7:] for l in out.splitlines() if l.strip().startswith("class:")]
                res["checks"][p] = {"exit": rc, "classes": classes[:6], "wall_s": round(time.time() - t0, 1)}
                print("%s: check %s -> exit %d %s" % (sid, p, rc, classes[:3]))
        finally:
            sh(["git", "-C", REPO, "checkout", "--", "."])
            sh(["git", "-C", REPO, "clean", "-fdq", "src", "tests"])   # seeds may add new source files
            assert repo_clean()
        res["caught_by_target"] = res["checks"].get(target, {}).get("exit") == 1
        res["caught_by"] = sorted(p for p, r in res["checks"].items() if r["exit"] == 1)
        results[sid] = res
        json.dump(results, open(results_path, "w"), indent=1)
    write_md(results)
    return 0


def write_md(results):
    lines = ["# Mutation self-test results", "",
             "Each seed is a change to rl2tp written by an independent sub-agent that was given only the property text;",
             "it compiles, passes the 98 existing tests, and comes with a demonstration that fails with it.",
             "`selftest.py run` applies it to /repo, runs the quick check(s), and reverts it.", "",
             "| seed | breaks | caught by its property's check | all checks that fired | first violation class |",
             "|---|---|---|---|---|"]
    for sid in sorted(results):
        r = results[sid]
        if "error" in r:
            lines.append("| %s | %s | error: %s | | |" % (sid, r["property"], r["error"]))
            continue
        first = ""
        c = r["checks"].get(r["property"], {})
        if c.get("classes"):
            first = c["classes"][0][:110]
        lines.append("| %s | %s | %s | %s | %s |" % (sid, r["property"], "yes" if r["caught_by_target"] else "**NO** (exit %s)" % c.get("exit"), " ".join(r["caught_by"]), first.replace("|", "/")))
    open(os.path.join(ROOT, "selftest", "RESULTS.md"), "w").write("\n".join(lines) + "\n")


def main():
    a = sys.argv[1:]
    if not a:
        print(__doc__)
        return 2
    if a[0] == "verify":
        return verify(a[1], a[2], a[3], a[4], release="--release" in a)
    if a[0] == "run":
        rest = [x for x in a[1:] if not x.startswith("--")]
        tier = "quick"
        if "--tier" in a:
            tier = a[a.index("--tier") + 1]
            rest = [x for x in rest if x != tier]
        extra = None
        if "--props" in a:
            extra = a[a.index("--props") + 1].split(",")
            rest = [x for x in rest if x != a[a.index("--props") + 1]]
        return run(rest, "--all-props" in a, tier, extra)
    print(__doc__)
    return 2


if __name__ == "__main__":
    sys.exit(main())
